'''
Planted mutations (DESIGN: "sanity mutations"): each is a small, realistic
change to pyxtuml applied to a scratch copy (never to /repo); the named check
is run against the copy through VERIF_REPO and must report a violation.

  python -m vf.mutants            # all
  python -m vf.mutants C17 C02    # some properties
  python -m vf.mutants C17:pop-first

Result table is printed; exit status 1 when a mutant survives.
'''
import json
import os
import shutil
import subprocess
import sys
import tempfile

HERE = os.path.dirname(os.path.dirname(os.path.abspath(__file__)))
REPO = '/repo'

# (property, name, file, old, new)
MUTANTS = [
    ('C17', 'discard-no-relink', 'xtuml/tools.py',
     "            prev[2] = next_\n            next_[1] = prev",
     "            prev[2] = next_"),
    ('C17', 'pop-first-reads-last', 'xtuml/tools.py',
     "            key = self.end[2][0]", "            key = self.end[1][0]"),
    ('C17', 'eq-length-only', 'xtuml/tools.py',
     "        return list(self) == list(other)", "        return True"),
    ('C17', 'queryset-last-iter', 'xtuml/meta.py',
     "            return next(reversed(self))", "            return next(iter(self))"),
    ('C02', 'no-rollback', 'xtuml/meta.py',
     "        ass.source_link.disconnect(inst1, inst2)\n        raise RelateException",
     "        raise RelateException"),
    ('C02', 'connect-ignores-check', 'xtuml/meta.py',
     "        if self[instance] and not self.many and check:", "        if False:"),
    ('C02', 'delete-skips-unrelate', 'xtuml/meta.py',
     "        if not disconnect:\n            return", "        if True:\n            return"),
    ('C02', 'find-link-ignores-phrase', 'xtuml/meta.py',
     "            ass.source_link.phrase == phrase):", "            True):"),
    ('C02', 'unrelate-one-direction', 'xtuml/meta.py',
     "    if not ass.target_link.disconnect(inst2, inst1):\n        raise UnrelateException",
     "    if False:\n        raise UnrelateException"),
    ('C02', 'second-delete-silent', 'xtuml/meta.py',
     '            raise DeleteException("Instance not found in the instance pool")', "            return"),
    ('C09', 'whereeq-break-continue', 'xtuml/meta.py',
     "                if getattr(inst, name) != value:\n                    break",
     "                if getattr(inst, name) != value:\n                    continue"),
    ('C09', 'orderby-ignores-reverse', 'xtuml/meta.py',
     "        return sorted(s, key=key, reverse=self.reverse)", "        return sorted(s, key=key)"),
    ('C09', 'reverse-not-stable', 'xtuml/meta.py',
     "        return sorted(s, key=key, reverse=self.reverse)",
     "        r = sorted(s, key=key)\n        return r[::-1] if self.reverse else r"),
    ('C09', 'navchain-returns-list', 'xtuml/meta.py',
     "        handle = apply_query_operators(handle, args)\n        if isinstance(handle, QuerySet):\n            return handle\n        else:\n            return QuerySet(handle)",
     "        handle = apply_query_operators(handle, args)\n        return list(handle)"),
    ('C09', 'two-hop-keeps-last-only', 'xtuml/meta.py',
     "            inst_set |= link2.navigate(inst)", "            inst_set = link2.navigate(inst)"),
    ('C09', 'select-one-with-order-unsorted', 'xtuml/meta.py',
     "        s = apply_query_operators(self.storage, args)\n        return next(iter(s), None)",
     "        s = apply_query_operators(self.storage, [a for a in args if not isinstance(a, OrderBy)])\n        return next(iter(s), None)"),
    ('C09', 'dict-filter-ignored', 'xtuml/meta.py',
     "            iterable = WhereEqual(op)(iterable)", "            pass"),
    ('C09', 'subtype-first-link-only', 'xtuml/meta.py',
     "        subtype = navigate_one(supertype).nav(kind, rel_id)()\n        if subtype:\n            return subtype",
     "        return navigate_one(supertype).nav(kind, rel_id)()"),
    ('C10', 'setattr-alias', 'xtuml/meta.py',
     "                self.__dict__[attr] = value\n                return", "                self.__dict__[attr] = value"),
    ('C10', 'getattr-exact', 'xtuml/meta.py',
     "        uname = name.upper()\n        for attr, _ in get_metaclass(self).attributes:\n            if attr.upper() != uname :\n                continue\n            \n            if attr in self.__dict__:\n                return",
     "        uname = name\n        for attr, _ in get_metaclass(self).attributes:\n            if attr != uname :\n                continue\n            \n            if attr in self.__dict__:\n                return"),
    ('C10', 'find-metaclass-exact', 'xtuml/meta.py',
     "        ukind = kind.upper()\n        if ukind in self.metaclasses:\n            return self.metaclasses[ukind]",
     "        ukind = kind.upper()\n        if kind in self.metaclasses:\n            return self.metaclasses[kind]"),
    ('C10', 'new-kwargs-exact', 'xtuml/meta.py',
     "                if attr_name.upper() == name.upper():\n                    name = attr_name",
     "                if attr_name == name:\n                    name = attr_name"),
    ('C10', 'delattr-wrong-key', 'xtuml/meta.py',
     "        raise AttributeError(name)", "        del self.__dict__[attr]"),
    ('C10', 'delattr-exact', 'xtuml/meta.py',
     "            if uname == attr.upper():\n                del", "            if name == attr:\n                del"),
    ('C16', 'no-ring-guard', 'xtuml/meta.py',
     "                if inst is first:\n                    break", "                pass"),
    ('C16', 'same-phrase', 'xtuml/meta.py',
     "        other_phrase = link.phrase\n        break", "        other_phrase = phrase\n        break"),
    ('C16', 'first-filter-inverted', 'xtuml/meta.py',
     "    first_filt = lambda sel: not navigate_one(sel)", "    first_filt = lambda sel: navigate_one(sel)"),
    ('C16', 'ring-starts-at-last', 'xtuml/meta.py',
     "        first_instances = [set_of_instances.first]", "        first_instances = [set_of_instances.last]"),
    ('C16', 'only-first-chain', 'xtuml/meta.py',
     "        for first in first_instances:\n            inst = first", "        for first in first_instances[:1]:\n            inst = first"),
    ('C19', 'integer-default-none', 'xtuml/meta.py',
     "        elif uname == 'INTEGER':\n            return 0", "        elif uname == 'INTEGER':\n            return None"),
    ('C19', 'real-default-int', 'xtuml/meta.py',
     "            return 0.0", "            return 0"),
    ('C19', 'positional-wins-over-keyword', 'xtuml/meta.py',
     "            if name not in self.referential_attributes:\n                setattr(inst, name, value)\n            else:\n                referential_attributes[name] = value\n        \n        if not referential_attributes:",
     "            if name in [a for a, _ in self.attributes[:len(args)]]:\n                continue\n            if name not in self.referential_attributes:\n                setattr(inst, name, value)\n            else:\n                referential_attributes[name] = value\n        \n        if not referential_attributes:"),
    ('C19', 'peek-advances', 'xtuml/tools.py',
     "        return self._current\n", "        return self.next()\n"),
    ('C19', 'uuid-default-bypasses-generator', 'xtuml/meta.py',
     "                return next(self.metamodel.id_generator)", "                import uuid\n                return uuid.uuid4().int"),
    ('C19', 'integer-generator-from-zero', 'xtuml/tools.py',
     "        self._current = self.readfunc()\n    \n    def peek", "        self._current = self.readfunc() - (1 if isinstance(self, IntegerGenerator) else 0)\n    \n    def peek"),
    ('C19', 'unknown-type-defaults-none', 'xtuml/meta.py',
     "            raise MetaException(\"Unknown type named '%s'\" % type_name)", "            return None"),
    ('C19', 'positional-skips-referential-slot', 'xtuml/meta.py',
     "        for attr, value in zip(self.attributes, args):",
     "        for attr, value in zip([a for a in self.attributes if a[0] not in self.referential_attributes], args):"),
    ('C01', 'no-quote-escape', 'xtuml/persist.py',
     '''lambda v: "'%s'" % v.replace("'", "''"),''', '''lambda v: "'%s'" % v,'''),
    ('C01', 'real-g-format', 'xtuml/persist.py', "lambda v: '%f' % v,", "lambda v: '%g' % v,"),
    ('C01', 'persist-ids-skip-last-class', 'xtuml/persist.py',
     "        for metaclass in metamodel.metaclasses.values():\n            for index_name",
     "        for metaclass in list(metamodel.metaclasses.values())[:-1]:\n            for index_name"),
    ('C01', 'assoc-phrases-swapped', 'xtuml/persist.py',
     "    if ass.target_link.phrase:\n        s1 += \" PHRASE '%s'\" % ass.target_link.phrase",
     "    if ass.target_link.phrase:\n        s1 += \" PHRASE '%s'\" % ass.source_link.phrase"),
    ('C01', 'string-regex-no-doubled-quote', 'xtuml/load.py',
     "        r'\\'((\\'\\')|[^\\'])*\\''\n        t.lexer.lineno += (t.value.count(\"\\n\"))",
     "        r'\\'([^\\'])*\\''\n        t.lexer.lineno += (t.value.count(\"\\n\"))"),
    ('C01', 'negative-drops-sign', 'xtuml/load.py', "        p[0] = p[1] + p[2]", "        p[0] = p[2]"),
    ('C01', 'boolean-digit-branch-removed', 'xtuml/load.py',
     "        if value.isdigit():\n            return bool(int(value))\n        elif", "        if"),
    ('C01', 'persist-schema-cardinality-swap', 'xtuml/persist.py',
     "    s2 = '%s %s (%s)' % (ass.target_link.cardinality,", "    s2 = '%s %s (%s)' % (ass.source_link.cardinality,"),
    ('C01', 'unset-real-as-empty', 'xtuml/persist.py',
     "    if value is None:\n        value = null_value[ty]", "    if value is None and ty != 'REAL':\n        value = null_value[ty]"),
    ('C01', 'persist-instances-reversed', 'xtuml/persist.py',
     "        for inst in metamodel.instances:\n            s = serialize_instance(inst)\n            f.write(s)\n\n\ndef persist_schema",
     "        for inst in reversed(list(metamodel.instances)):\n            s = serialize_instance(inst)\n            f.write(s)\n\n\ndef persist_schema"),
    ('C01', 'uuid-lexed-nongreedy-break', 'xtuml/load.py',
     "            return uuid.UUID(value[1:-1]).int\n        else:\n            return int(value)\n\n    ",
     "            return uuid.UUID(value[1:-1]).int & (2 ** 127 - 1)\n        else:\n            return int(value)\n\n    "),
    ('C01', 'newline-translation-back', 'xtuml/load.py',
     "        with open(filename, 'r', newline='') as f:", "        with open(filename, 'r') as f:"),
    ('C03', 'null-id-links', 'xtuml/meta.py',
     "            return value == 0\n", "            return False\n"),
    ('C03', 'index-first-attribute-only', 'xtuml/meta.py',
     "        for attr in self.key_map.values():\n            if _is_null(to_instance, attr):\n                return None\n            ",
     "        for attr in list(self.key_map.values())[:1]:\n            if _is_null(to_instance, attr):\n                return None\n            "),
    ('C03', 'connections-before-instances', 'xtuml/load.py',
     "        self.populate_instances(metamodel)\n        self.populate_connections(metamodel)",
     "        self.populate_connections(metamodel)\n        self.populate_instances(metamodel)"),
    ('C03', 'zip-loads-every-member', 'bridgepoint/ooaofooa.py',
     "                    if zipinfo.filename.endswith('.xtuml'):", "                    if True:"),
    ('C03', 'duplicates-keep-last-only', 'xtuml/load.py',
     "                    if inst_key not in storage[target_class][link_key]:\n                        storage[target_class][link_key][inst_key] = xtuml.OrderedSet()",
     "                    if True:\n                        storage[target_class][link_key][inst_key] = xtuml.OrderedSet()"),
    ('C03', 'index-shared-across-associations', 'xtuml/load.py',
     "            link_key = frozenset(ass.source_link.key_map.values())",
     "            link_key = frozenset([len(ass.source_link.key_map)])"),
    ('C03', 'null-empty-string-links', 'xtuml/meta.py',
     "            return len(value) == 0", "            return False"),
    ('C03', 'new-links-null-referentials', 'xtuml/meta.py',
     "                    kwargs = None\n                    break", "                    pass"),
    ('C03', 'directory-walk-top-only', 'bridgepoint/ooaofooa.py',
     "            for path, _, files in os.walk(path_or_filename):", "            for path, _, files in list(os.walk(path_or_filename))[:1]:"),
    ('C03', 'clone-skips-last-attribute', 'xtuml/meta.py',
     "        return self.new(*args)", "        return self.new(*args[:-1]) if len(args) > 1 else self.new(*args)"),
    ('C03', 'named-insert-first-match-case-sensitive', 'xtuml/load.py',
     "        inst_unames = [name.upper() for name in stmt.names]", "        inst_unames = [name for name in stmt.names]"),
    ('C12', 'statements-appended-while-parsing', ['xtuml/load.py', 'xtuml/load.py'],
     ["        p[0].filename = p.lexer.filename\n", "        self.statements.extend(s)"],
     ["        p[0].filename = p.lexer.filename\n        self.statements.append(p[0])\n", "        pass"]),
    ('C12', 't-error-valueerror', 'xtuml/load.py',
     "        raise ParsingException(\"illegal character '%s' at %s:%d\" % (t.value[0],",
     "        raise ValueError(\"illegal character '%s' at %s:%d\" % (t.value[0],"),
    ('C12', 'valueerror-leaks-again', 'xtuml/load.py',
     "                except ValueError:\n                    value = None", "                except KeyError:\n                    value = None"),
    ('C12', 'cardinality-keyerror', 'xtuml/load.py',
     "        if p[1] not in ['M', 'MC']:\n            raise ParsingException(", "        if p[1] not in ['M', 'MC']:\n            raise KeyError("),
    ('C12', 'quadratic-comment-regex', 'xtuml/load.py',
     "        r'\\-\\-([^\\n]*\\n?)'", "        r'\\-\\-(([^\\n]*)*\\n)'"),
    ('C12', 'input-keeps-statements-on-late-error', 'xtuml/load.py',
     "        p[0] = p[1]\n        p[0].append(p[2])", "        p[0] = p[1]\n        p[0].append(p[2])\n        self.statements.append(p[2])\n        self.statements.pop() if len(p[0]) % 3 else None"),
    ('C18', 'cache-first-build', 'xtuml/load.py',
     "        m = xtuml.MetaModel(id_generator)\n        \n        self.populate(m)\n        \n        return m",
     "        if getattr(self, '_cached', None) is not None and self._cached[0] == len(self.statements):\n            return self._cached[1]\n        m = xtuml.MetaModel(id_generator)\n        \n        self.populate(m)\n        self._cached = (len(self.statements), m)\n        return m"),
    ('C18', 'share-attribute-list', 'xtuml/meta.py',
     "        metaclass = MetaClass(kind, self)\n        for name, ty in attributes:\n            metaclass.append_attribute(name, ty)",
     "        metaclass = MetaClass(kind, self)\n        metaclass.attributes = attributes"),
    ('C18', 'share-index-dict', ['xtuml/load.py', 'xtuml/meta.py'],
     ["            if isinstance(stmt, CreateUniqueStmt):\n                metamodel.define_unique_identifier(stmt.kind, stmt.name, \n                                                   *stmt.attributes)",
      "        self.indices = dict()"],
     ["            if isinstance(stmt, CreateUniqueStmt):\n                metamodel.define_unique_identifier(stmt.kind, stmt.name, \n                                                   *stmt.attributes)\n                stmt.shared = metamodel.find_metaclass(stmt.kind).indices = getattr(stmt, 'shared', metamodel.find_metaclass(stmt.kind).indices)",
      "        self.indices = dict()"]),
    ('C18', 'statements-consumed-by-build', 'xtuml/load.py',
     "        self.populate_connections(metamodel)\n\n    def build_metamodel",
     "        self.populate_connections(metamodel)\n        self.statements = [s for s in self.statements if not isinstance(s, CreateInstanceStmt)]\n\n    def build_metamodel"),
    ('C18', 'instances-reused-across-builds', 'xtuml/load.py',
     "        inst = metamodel.new(stmt.kind)\n        for attr, value in zip(metaclass.attributes, stmt.values):",
     "        inst = getattr(stmt, '_inst', None) or metamodel.new(stmt.kind)\n        if getattr(stmt, '_inst', None) is not None:\n            metaclass.storage.append(inst)\n        stmt._inst = inst\n        for attr, value in zip(metaclass.attributes, stmt.values):"),
    ('C11', 'lt1-becomes-le1', 'xtuml/consistency_check.py',
     "        if(len(q_set) < 1 and not link.conditional)", "        if(len(q_set) <= 1 and not link.conditional)"),
    ('C11', 'source-direction-forgotten', 'xtuml/consistency_check.py',
     "            res += check_link_integrity(m, ass.source_link)\n", ""),
    ('C11', 'main-only-last-r', 'xtuml/consistency_check.py',
     "    for rel_id in opts.rel_ids:\n        error += xtuml.check_association_integrity(m, rel_id)",
     "    for rel_id in opts.rel_ids:\n        error = xtuml.check_association_integrity(m, rel_id)"),
    ('C11', 'is-consistent-ignores-uniqueness', 'xtuml/meta.py',
     "        return xtuml.check_uniqueness_constraint(self) == 0", "        return True"),
    ('C11', 'null-check-case-sensitive', 'xtuml/consistency_check.py',
     "(ty.upper() == 'UNIQUE_ID' and not value)", "(ty == 'UNIQUE_ID' and not value)"),
    ('C11', 'duplicate-counted-once-per-class', 'xtuml/consistency_check.py',
     "                if index_key in id_map[identifier]:\n                    res += 1",
     "                if index_key in id_map[identifier]:\n                    res |= 1"),
    ('C11', 'exit-status-mod-256', 'xtuml/consistency_check.py',
     "    sys.exit(num_errors > 0)", "    sys.exit(num_errors - 1 if num_errors == 1 else num_errors > 0)"),
    ('C11', 'bp-main-skips-k', 'bridgepoint/consistency_check.py',
     "    for kind in opts.kinds:\n        error += xtuml.check_uniqueness_constraint(m, kind)",
     "    for kind in opts.kinds[:1]:\n        error += xtuml.check_uniqueness_constraint(m, kind)"),
    ('C11', 'subtype-counts-any-link', 'xtuml/consistency_check.py',
     "        if not xtuml.navigate_subtype(inst, rel_id):", "        if not xtuml.navigate_subtype(inst, rel_id) and inst is m.select_any(super_kind):"),
    ('C11', 'many-upper-bound-ignored', 'xtuml/consistency_check.py',
     "          (len(q_set) > 1 and not link.many)):", "          (len(q_set) > 2 and not link.many)):"),
    ('C07', 'swap-and-or-precedence', 'bridgepoint/oal.py',
     "        ('left', 'OR'),\n        ('left', 'AND'),", "        ('left', 'AND'),\n        ('left', 'OR'),"),
    ('C07', 'additive-right-assoc', 'bridgepoint/oal.py',
     "        ('left', 'PLUS', 'MINUS', 'PIPE'),", "        ('right', 'PLUS', 'MINUS', 'PIPE'),"),
    ('C07', 'mod-same-level-as-times', 'bridgepoint/oal.py',
     "        ('left', 'TIMES', 'DIV', 'AMP', 'CARET'),\n        ('left', 'MOD'),",
     "        ('left', 'TIMES', 'DIV', 'AMP', 'CARET', 'MOD'),"),
    ('C07', 'unary-binds-weaker-than-mod', 'bridgepoint/oal.py',
     "        ('left', 'MOD'),\n        ('right', 'UNARY'),", "        ('right', 'UNARY'),\n        ('left', 'MOD'),"),
    ('C07', 'while-loop-word-dropped', 'bridgepoint/oal.py',
     "'''statement : WHILE expression LOOP block END_WHILE'''", "'''statement : WHILE expression LOOP LOOP block END_WHILE'''"),
    ('C07', 'keywords-case-sensitive', 'bridgepoint/oal.py',
     "        value = t.value.upper()\n        if value in self.keywords:", "        value = t.value\n        if value in self.keywords:"),
    ('C07', 'comparison-left-assoc-with-plus', 'bridgepoint/oal.py',
     "        ('nonassoc', 'LESSTHAN', 'LE', 'DOUBLEEQUAL', 'GT', 'GE', 'NOTEQUAL'),\n        ('left', 'PLUS', 'MINUS', 'PIPE'),",
     "        ('left', 'PLUS', 'MINUS', 'PIPE'),\n        ('nonassoc', 'LESSTHAN', 'LE', 'DOUBLEEQUAL', 'GT', 'GE', 'NOTEQUAL'),"),
    ('C07', 'binary-operands-swapped', 'bridgepoint/oal.py',
     "                   | expression CARET expression\n        '''\n        p[0] = BinaryOperationNode(left=p[1],\n                                   operator=p[2],\n                                   right=p[3])",
     "                   | expression CARET expression\n        '''\n        p[0] = BinaryOperationNode(left=p[3] if p[2] == '^' else p[1],\n                                   operator=p[2],\n                                   right=p[1] if p[2] == '^' else p[3])"),
    ('C07', 'elif-drops-following', 'bridgepoint/oal.py',
     "        p[0] = p[3]\n        p[0].children.insert(0, p[2])", "        p[0] = p[3]\n        p[0].children[:] = [p[2]]"),
    ('C07', 'unrelate-using-phrase-lost', 'bridgepoint/oal.py',
     "        p[0] = UnrelateUsingNode(from_variable_name=p[2],\n                                 to_variable_name=p[4],\n                                 rel_id=p[6],\n                                 phrase=p[8],",
     "        p[0] = UnrelateUsingNode(from_variable_name=p[2],\n                                 to_variable_name=p[4],\n                                 rel_id=p[6],\n                                 phrase=None,"),
    ('C07', 'sl-comment-eats-next-line', 'bridgepoint/oal.py',
     "        r'\\/\\/.*\\n'", "        r'\\/\\/.*\\n.*\\n'"),
    ('C13', 'comment-regex-exponential-again', 'bridgepoint/oal.py',
     "        r'/\\*([^*]|(\\*+[^*/]))*\\*+/'", "        r'/\\*([^*]|[\\r\\n]|(\\*+([^*/]|[\\r\\n])))*\\*+/'"),
    ('C13', 'end-if-newline-not-counted', 'bridgepoint/oal.py',
     "[Ii][Ff]\"\n        t.lexer.lineno += t.value.count('\\n')\n        t.endlineno = t.lexer.lineno\n", "[Ii][Ff]\"\n"),
    ('C13', 'find-column-off-by-one', 'bridgepoint/oal.py',
     "    return lexpos - lexdata.rfind('\\n', 0, lexpos)", "    return lexpos - lexdata.rfind('\\n', 0, lexpos) - 1"),
    ('C13', 'comment-newlines-not-counted', 'bridgepoint/oal.py',
     "        r'/\\*([^*]|(\\*+[^*/]))*\\*+/'\n        t.lexer.lineno += t.value.count('\\n')", "        r'/\\*([^*]|(\\*+[^*/]))*\\*+/'"),
    ('C13', 'end-column-without-minus-one', 'bridgepoint/oal.py',
     "                                             node.position.end_stream) - 1", "                                             node.position.end_stream)"),
    ('C13', 'end-from-first-symbol', 'bridgepoint/oal.py',
     "    _, node.position.end_stream = p.lexspan(len(p) - 1)", "    _, node.position.end_stream = p.lexspan(1)"),
    ('C13', 'p-error-valueerror', 'bridgepoint/oal.py',
     "            raise ParseException(\"unknown parsing error\")", "            raise ValueError(\"unknown parsing error\")"),
    ('C13', 'grouped-expression-keeps-inner-span', 'bridgepoint/oal.py',
     "    @track_production\n    def p_grouped_expression(self, p):", "    def p_grouped_expression(self, p):"),
    ('C13', 'sl-comment-line-not-counted', 'bridgepoint/oal.py',
     "        r'\\/\\/.*\\n'\n        t.lexer.lineno += t.value.count('\\n')", "        r'\\/\\/.*\\n'"),
    ('C04', 'lt-le-swapped', 'bridgepoint/interpret.py',
     "            '<':   lambda lhs, rhs: (lhs < rhs),\n            '<=':  lambda lhs, rhs: (lhs <= rhs),",
     "            '<':   lambda lhs, rhs: (lhs <= rhs),\n            '<=':  lambda lhs, rhs: (lhs < rhs),"),
    ('C04', 'break-as-continue-in-while', 'bridgepoint/interpret.py',
     "            except ContinueException:\n                continue\n            except BreakException:\n                break\n    \n    def accept_AssignmentNode",
     "            except ContinueException:\n                continue\n            except BreakException:\n                continue\n    \n    def accept_AssignmentNode"),
    ('C04', 'where-selected-bound-late', 'bridgepoint/interpret.py',
     "            self.symtab.install_symbol('selected', selected)\n            value = self.accept(node.where_clause)\n            self.symtab.leave_block()\n            return value.fget()\n        \n        if node.cardinality",
     "            value = self.accept(node.where_clause)\n            self.symtab.install_symbol('selected', selected)\n            self.symtab.leave_block()\n            return value.fget()\n        \n        if node.cardinality"),
    ('C04', 'if-always-runs-else', 'bridgepoint/interpret.py',
     "        elif not self.accept(node.elif_list):\n            self.accept(node.else_clause)",
     "        elif not self.accept(node.elif_list):\n            self.accept(node.else_clause)\n        else:\n            self.accept(node.else_clause)"),
    ('C04', 'cardinality-of-instance-zero', 'xtuml/meta.py',
     "    if isinstance(instance_or_set, Class):\n        return 1", "    if isinstance(instance_or_set, Class):\n        return 0"),
    ('C04', 'foreach-iterates-live-set', 'bridgepoint/interpret.py',
     "        for handle in set_handle:\n            self.symtab.install_symbol(node.instance_variable_name, handle)",
     "        for handle in list(set_handle)[::-1]:\n            self.symtab.install_symbol(node.instance_variable_name, handle)"),
    ('C04', 'relate-using-second-link-skipped', 'bridgepoint/interpret.py',
     "        xtuml.relate(from_inst, using_inst, node.rel_id, node.phrase.replace(\"'\", ''))\n        xtuml.relate(using_inst, to_inst, node.rel_id, node.phrase.replace(\"'\", ''))",
     "        xtuml.relate(from_inst, using_inst, node.rel_id, node.phrase.replace(\"'\", ''))"),
    ('C04', 'inner-block-variables-leak', 'bridgepoint/interpret.py',
     "        block = self.scope_head.pop()\n        del block", "        block = self.scope_head.pop()\n        self.scope_head[-1].update(block) if self.scope_head else None"),
    ('C04', 'string-literal-keeps-quote', 'bridgepoint/interpret.py',
     "        value = node.value[1:-1]\n        return property(lambda: value)", "        value = node.value[1:]\n        return property(lambda: value)"),
    ('C04', 'unary-minus-dropped', 'bridgepoint/interpret.py',
     "            '-':           lambda value: -value,", "            '-':           lambda value: value,"),
    ('C04', 'select-any-where-returns-last', 'bridgepoint/interpret.py',
     "            handle = self.domain.select_any(node.key_letter, where)\n        \n        self.symtab.install_symbol(node.variable_name, handle)\n            \n    def accept_SelectRelatedNode",
     "            handle = self.domain.select_many(node.key_letter, where).last\n        \n        self.symtab.install_symbol(node.variable_name, handle)\n            \n    def accept_SelectRelatedNode"),
    ('C04', 'control-stop-ignored', 'bridgepoint/interpret.py',
     "    def accept_ControlNode(self, node):\n        raise StopException()", "    def accept_ControlNode(self, node):\n        pass"),
    ('C04', 'bare-return-crash-again', 'bridgepoint/interpret.py',
     "        if node.expression is not None:\n            value = self.accept(node.expression)\n            self.return_value = value.fget()",
     "        if True:\n            value = self.accept(node.expression)\n            self.return_value = value.fget()"),
]


def load_extra():
    path = os.path.join(HERE, 'vf', 'mutants_extra.json')
    if os.path.exists(path):
        for m in json.load(open(path)):
            MUTANTS.append(tuple(m))


def run_one(prop, name, fname, old, new, tier='quick'):
    root = tempfile.mkdtemp(prefix='pyxtuml-mut-')
    try:
        for pkg in ('xtuml', 'bridgepoint', 'tests'):
            subprocess.check_call(['rsync', '-a', '--exclude', '__pycache__',
                                   '--exclude', '__*tab.py',
                                   os.path.join(REPO, pkg) + '/',
                                   os.path.join(root, pkg) + '/'])
        edits = [(fname, old, new)] if isinstance(fname, str) else list(zip(fname, old, new))
        for f, o, n in edits:
            path = os.path.join(root, f)
            src = open(path).read()
            if src.count(o) < 1:
                return 'STALE (pattern not found in %s)' % f
            open(path, 'w').write(src.replace(o, n, 1))
        env = dict(os.environ, VERIF_REPO=root)
        p = subprocess.run([os.path.join(HERE, 'vcheck'), prop, '--tier', tier,
                            '--no-evidence'], env=env, capture_output=True, text=True)
        lines = [l for l in p.stdout.splitlines() if l.startswith('VIOLATION')]
        if p.returncode == 1 and lines:
            return 'caught (%d; %s)' % (len(lines), lines[0].split('key=')[-1][:90])
        if p.returncode == 2:
            return 'INCONCLUSIVE ' + p.stdout[-300:]
        return 'SURVIVED rc=%d %s' % (p.returncode, p.stdout[-200:])
    finally:
        shutil.rmtree(root, ignore_errors=True)


def main(argv):
    load_extra()
    sel = argv[1:]
    bad = 0
    for prop, name, fname, old, new in MUTANTS:
        if sel and prop not in sel and '%s:%s' % (prop, name) not in sel:
            continue
        res = run_one(prop, name, fname, old, new)
        print('%s %-28s %s' % (prop, name, res), flush=True)
        if not res.startswith('caught'):
            bad += 1
    return 1 if bad else 0


if __name__ == '__main__':
    sys.exit(main(sys.argv))
