'''
Regenerate /verif/MANIFEST.json from the check modules present under
vf/checks (their LEVEL_TEXT / LEVEL_NOTE / TECHNIQUE / DESIGN_REF constants).
Properties without a check module are listed under not_applicable.
'''
import importlib
import json
import os
import sys

HERE = os.path.dirname(os.path.dirname(os.path.abspath(__file__)))
sys.path.insert(0, HERE)

NOT_BUILT = 'check not built yet in this round (design in DESIGN.md section 3); not claimed until it exists'


def main():
    props = [json.loads(l) for l in open(os.path.join(HERE, 'properties.jsonl')) if l.strip()]
    checks, na = [], []
    for p in props:
        pid = p['id']
        path = os.path.join(HERE, 'vf', 'checks', pid.lower() + '.py')
        if not os.path.exists(path):
            na.append(dict(property_id=pid, reason=NOT_BUILT))
            continue
        mod = importlib.import_module('vf.checks.' + pid.lower())
        if getattr(mod, 'NOT_CLAIMED', None):
            na.append(dict(property_id=pid, reason=mod.NOT_CLAIMED))
            continue
        checks.append(dict(
            property_id=pid,
            quick_cmd='./vcheck %s --tier quick' % pid,
            thorough_cmd='./vcheck %s --tier thorough' % pid,
            evidence_file='/verif/evidence/%s.json' % pid,
            replay_cmd_template='./vcheck %s --replay {path}' % pid,
            engine='vf',
            level_claimed=dict(category='exploration', text=mod.LEVEL_TEXT,
                               design_ref='DESIGN.md section 3, %s' % pid),
            level_note=mod.LEVEL_NOTE,
            technique=mod.TECHNIQUE))
    manifest = dict(
        version=1,
        setup_cmd='/venv/bin/python -m pip install -q --no-index --find-links /opt/veriftools/wheels --target /verif/.deps icontract || true',
        hooks=dict(guard='PYXTUML_VERIF',
                   enable='no source hooks exist: every monitor is attached from outside by wrapping the freshly imported modules of a scratch build of the working tree (vf/build.py); the guard name is reserved and unused',
                   baseline_off_cmd='cd /repo && /venv/bin/python -m pytest -ra -q -p no:cacheprovider --timeout=900 --continue-on-collection-errors',
                   source_commits=[], add_only=True),
        engines=[dict(name='vf', path='/verif/vf',
                      serves_properties=[c['property_id'] for c in checks],
                      kind_free_text='runtime monitoring: workload generators (random + bounded exhaustive) drive the real code of a scratch build of the working tree in 16 child processes; invariant monitors at API hooks and reference-model oracles decide; three-valued verdicts; known findings matched by mechanism key')],
        checks=checks,
        notes='See DESIGN.md. Exit 0 held / 1 violation / 2 inconclusive. VERIF_SEED and VERIF_TIER honoured. python -m vf.mutants runs the planted sanity mutations against scratch copies.',
        not_applicable=na)
    with open(os.path.join(HERE, 'MANIFEST.json'), 'w') as f:
        json.dump(manifest, f, indent=1)
    print('claimed: %s' % ' '.join(c['property_id'] for c in checks))


if __name__ == '__main__':
    main()
