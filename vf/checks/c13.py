'''
C13 - OAL parsing is total and its source positions are exact.

Totality: exception classification + hard CPU budget over arbitrary strings,
random token sequences, token edits / truncations of generated programs and
long repetitions of the units the lexer rules loop over.
Positions: the renderer's own bookkeeping (line / column of the first and last
token of every statement and expression node, and the source substring between
them) compared with node.position / node.character_stream.
'''
import re

from vf import oalmodel as om
from vf import oalsyn

SUPPORTS_REPLAY = True
SHARDS = {'quick': 16, 'thorough': 64}
TIMEOUT = {'quick': 1500, 'thorough': 7200}
MUST_HIT = ['Totality.long-or-deep-program', 'EarlierObject.rechecked', 'Position.after-rejected-text', 'Position.nodes-compared', 'Position.multi-line-expression', 'Position.newline-in-end-keyword',
            'Position.comment-between-tokens', 'Totality.parsed', 'Totality.rejected', 'CpuBudget.guarded',
            'Totality.unterminated-comment', 'Position.comment-with-other-line-boundary-character']
MUST_REACH = ['bridgepoint/oal.py:set_positional_info', 'bridgepoint/oal.py:find_column',
              'bridgepoint/oal.py:OALParser.t_error', 'bridgepoint/oal.py:OALParser.p_error',
              'bridgepoint/oal.py:OALParser.t_COMMENT', 'bridgepoint/oal.py:OALParser.t_newline',
              'bridgepoint/oal.py:parse']
ANCHORS = MUST_REACH
MIN_NONTRIVIAL = {'quick': 5000, 'thorough': 5000}
RULE = ('positions: the C07 program stream (every statement production, expressions to depth 7) under '
        'random layout - multi-line expressions, tabs, CR LF, block and line comments between any two '
        'tokens, a line break inside "end if/for/while", redundant parentheses - every statement and '
        'expression node compared with the renderer\'s record of its first/last token; totality: '
        'arbitrary unicode strings, random OAL token sequences, 1-3 token edits and truncations of '
        'generated programs, long repetitions (unterminated /* with many newlines or stars, quotes, '
        'digits, "end" + white space) under a 5 s CPU budget. Non-trivial = a program with at least two '
        'lines (positions) or a text that is not a generated program (totality); distinct by hash of the text.'
        ' Totality also on long / deep valid programs (sums, stacked unary operators, nested blocks, chains of 60-4000 repetitions, half of them edited) parsed under the default recursion limit; any exception but the parse exception is a violation, RecursionError included.')
ASSUMPTIONS = ['lines and columns are 1-based, a column counts characters (a tab is one), the end column is '
               'the column of the last character of the last token',
               'a parenthesised expression\'s span includes its parentheses',
               'clause nodes (elif/else clauses, lists, parameters, event specifications) are not '
               'statement or expression nodes and are not compared']
LEVEL_TEXT = ('Random exploration: exact positions of every statement/expression node on generated programs '
              'under random layouts, and exception classification with a hard CPU budget on hostile texts; '
              'held on everything explored.')
LEVEL_NOTE = 'Trusted: the position bookkeeping of vf/oalmodel.Emitter.'
TECHNIQUE = 'runtime monitoring: position oracle recorded while emitting the source + exception classifier + CPU-budget failpoint'

TOKEN = re.compile(r'/\*.*?\*/|//[^\n]*\n|"[^"\n]*"|\'[^\']*\'|[A-Za-z_][A-Za-z0-9_]*|\d+\.\d+|\d+|::|->|==|!=|<=|>=|\s+|.',
                   re.S)
VOCAB = ['select', 'any', 'many', 'one', 'from', 'instances', 'of', 'where', 'related', 'by', 'if', 'elif',
         'else', 'end if', 'while', 'end while', 'for', 'each', 'in', 'end for', 'create', 'object',
         'instance', 'delete', 'relate', 'unrelate', 'to', 'across', 'using', 'return', 'break', 'continue',
         'control', 'stop', 'generate', 'event', 'bridge', 'transform', 'send', 'param', 'self', 'selected',
         'not', 'empty', 'not_empty', 'cardinality', 'and', 'or', 'true', 'false', 'assign', 'loop', 'then',
         'x', 'y', 'A', 'R1', '1', '2.5', '"s"', "'p'", ';', ';', '=', '==', '!=', '<', '<=', '>', '>=', '+',
         '-', '*', '/', '%', '|', '&', '^', '(', ')', '[', ']', '.', ',', ':', '::', '->', '?', '/*', '*/',
         '//', '\n', '"', "'", '$', '\\']


class Mismatch(Exception):
    def __init__(self, key, what):
        Exception.__init__(self, what)
        self.key = key
        self.what = what


def totality(ctx, text, kind):
    '''-> True if parsed, False if rejected with ParseException; violations recorded'''
    from bridgepoint import oal
    ctx.hit('CpuBudget.guarded')
    ctx.guard(5 + len(text) // 1000, 'totality/cpu-budget', dict(text=text, kind=kind))
    import sys
    limit = sys.getrecursionlimit()
    if kind == 'long':
        # the interpreter's default stack depth, as a caller of the library has it (the workers raise it for the harness)
        sys.setrecursionlimit(1000)
    try:
        oal.parse(text)
        ctx.hit('Totality.parsed')
        return True
    except oal.ParseException:
        ctx.hit('Totality.rejected')
        return False
    except Exception as e:
        import traceback
        tb = traceback.extract_tb(e.__traceback__)
        fn = [f.name for f in tb if f.filename.startswith(ctx.root)]
        ctx.violation('totality/%s@%s' % (type(e).__name__, fn[-1] if fn else '?'),
                      'parse raised %s: %s' % (type(e).__name__, str(e)[:200]), case=dict(text=text))
        return None
    finally:
        sys.setrecursionlimit(limit)
        ctx.unguard()


def mutate(rng, text):
    toks = TOKEN.findall(text)
    for _ in range(rng.choice((1, 1, 2, 3))):
        if not toks:
            break
        i = rng.randrange(len(toks))
        op = rng.choice(('delete', 'dup', 'swap', 'replace', 'truncate', 'insert'))
        if op == 'delete':
            del toks[i]
        elif op == 'dup':
            toks.insert(i, toks[i])
        elif op == 'swap':
            j = rng.randrange(len(toks))
            toks[i], toks[j] = toks[j], toks[i]
        elif op == 'replace':
            toks[i] = rng.choice(VOCAB)
        elif op == 'insert':
            toks.insert(i, rng.choice(VOCAB) + ' ')
        else:
            s = ''.join(toks)
            return s[:rng.randrange(len(s) + 1)]
    return ''.join(toks)


def repetition(rng):
    n = rng.choice((20, 24, 28, 40, 200, 3000))
    unit = rng.choice(('\n', '*', '* ', '*\n', '\r\n', 'a', ' ', '/', '*/ /*', '"', "'", '1', '1.', '.', 'e',
                       '::', 'a::', '(', 'not ', '- ', 'end ', ' \n'))
    head = rng.choice(('/*', '/*', '/*', 'x = 1; /*', '"', "'", '//', 'end', 'x = ', '', 'x = 1.'))
    tail = rng.choice(('', '', '*', '/', 'if', '"', "'", ';', '*/'))
    return head + unit * n + tail


def long_program(rng):
    '''
    valid texts that are long or deep in one direction (the parser works through them with an explicit stack: no
    text of these shapes ever ended in anything but a tree on the unchanged sources, up to 20 000 statements)
    '''
    n = rng.choice((60, 400, 1100, 1600, 4000))
    k = rng.randrange(12)
    op = rng.choice(('+', '-', '*', 'and', 'or', '|'))
    atom = 'true' if op in ('and', 'or') else rng.choice(('1', 'a', '2.5'))
    if k == 0:
        return 'x = ' + (' %s ' % op).join([atom] * n) + ';'
    if k == 1:
        return 'x = ' + rng.choice(('not ', '- ', '+ ', 'not_empty ')) * n + rng.choice(('true', '1', 'a')) + ';'
    if k == 2:
        return 'x = ' + '(' * n + '1' + ')' * n + ';'
    if k == 3:
        kind = rng.choice(('if', 'while', 'for'))
        head = {'if': 'if (true)\n', 'while': 'while (false)\n', 'for': 'for each a in as\n'}[kind]
        return head * n + 'x = 1;\n' + ('end %s;\n' % kind) * n
    if k == 4:
        return 'x = a' + ''.join('.f%d' % i for i in range(n)) + ';'
    if k == 5:
        return 'x = ' + ('%s %s (' % (atom, op)) * n + atom + ')' * n + ';'
    if k == 6:
        return 'if (true)\n x = 1;\n' + 'elif (true)\n x = 2;\n' * n + 'end if;'
    if k == 7:
        return 'x = 1;\n' * n
    if k == 8:
        return 'x = ::f(' + ', '.join('p%d: %d' % (i, i) for i in range(n)) + ');'
    if k == 9:
        return 'x = a' + '[1]' * n + ';'
    if k == 10:
        return 'select many xs from instances of A where (' + ' and '.join(['selected.x == 1'] * n) + ');'
    return 'select many xs related by a' + ''.join('->K%d[R%d]' % (i % 7, i % 9 + 1) for i in range(n)) + ';'


def random_string(rng):
    n = rng.choice((3, 20, 100, 400))
    alph = rng.choice((
        lambda: chr(rng.randrange(32, 127)),
        lambda: rng.choice(' \t\n\r;="\'/*-><()[].:,'),
        lambda: chr(rng.randrange(0, 0x250)),
        lambda: chr(rng.choice((rng.randrange(0x250, 0xD800), rng.randrange(0xE000, 0x11000)))),
        lambda: rng.choice(VOCAB) + rng.choice((' ', '', '\n')),
    ))
    return ''.join(alph() for _ in range(n))


def positions(ctx, g, rng):
    from bridgepoint import oal
    tree = g.program(depth=rng.choice((0, 1, 2, 3)), nstmts=rng.randint(1, 5))
    text = om.render(tree, rng, layout='random', case=rng.choice(('lower', 'random')),
                     extra_parens=rng.choice((0.0, 0.1)), newline_in_end=True)
    if rng.random() < 0.35:
        # positions must not depend on what was parsed (or rejected) before
        junk = rng.choice(('x = 1;\ny = ;\n', 'if a\n\n  b = 2;\n', '\n\n\nselect any from;', 'x = (1 +\n2;',
                           '/* open\n\n', 'a = 1;\nb = 2;\nend if;'))
        try:
            oal.parse(junk)
        except oal.ParseException:
            ctx.hit('Position.after-rejected-text')
    try:
        got = oal.parse(text)
    except oal.ParseException as e:
        raise Mismatch('positions/does-not-parse', 'well-formed text rejected: %s\n%s' % (e, text[:300]))
    probs = om.compare(tree, got, positions=True, text=text)
    checked = [n for n in tree.walk() if n.checked and n.pos]
    ctx.hit('Position.nodes-compared', len(checked))
    if any(n.pos[0] != n.pos[2] and n.cls in ('BinaryOperationNode', 'UnaryOperationNode') for n in checked):
        ctx.hit('Position.multi-line-expression')
    if re.search(r'(?i)end[ \t]*\n\s*(if|for|while)', text):
        ctx.hit('Position.newline-in-end-keyword')
    if '/*' in text or '//' in text:
        ctx.hit('Position.comment-between-tokens')
    for kind, path, msg in probs:
        if kind == 'position':
            raise Mismatch('positions/%s' % classify(msg, text), '%s at %s\n%s' % (msg, path, text[:500]))
        raise Mismatch('positions/other-tree', '%s at %s\n%s' % (msg, path, text[:300]))
    # the tree stays what it is when other texts are parsed (or rejected) afterwards: it is compared once more
    # after the next program went through the parser
    ctx.later('returned-tree', (lambda: [(k, m) for k, _, m in om.compare(tree, got, positions=True, text=text)]),
              'positions and source substrings recorded in a returned tree (differences to what was written)')
    return text


def classify(msg, text):
    if 'character_stream' in msg:
        return 'character-stream'
    m = re.search(r'at \((\d+), (\d+), (\d+), (\d+)\).*at \((\d+), (\d+), (\d+), (\d+)\)', msg)
    if not m:
        return 'missing'
    a = list(map(int, m.groups()))
    if a[0] != a[4] or a[2] != a[6]:
        return 'line'
    return 'column'


def run(ctx):
    rng = ctx.rng
    if ctx.params.get('replay'):
        text = ctx.params['replay']['case']['text']
        print(repr(text[:500]))
        print('totality ->', totality(ctx, text, 'long'))
        return
    quick = ctx.tier == 'quick'
    g = oalsyn.Gen(rng)
    for _ in range(ctx.share(6000 if quick else 300000)):
        try:
            text = positions(ctx, g, rng)
            ctx.case(text, text.count('\n') >= 1, sample=dict(kind='positions', text=text[:400]))
            ctx.count('position_programs')
        except Mismatch as e:
            ctx.violation(e.key, e.what, case=dict(text=e.what))
    ctx.hit('Position.comment-with-other-line-boundary-character',
            om.STATS.get('comment-with-other-line-boundary-character', 0))
    for _ in range(ctx.share(16000 if quick else 1500000)):
        k = rng.random()
        if k < 0.08:
            kind, text = 'repetition', repetition(rng)
            if text.startswith('/*') or '/*' in text[:12]:
                ctx.hit('Totality.unterminated-comment')
        elif k < 0.09:
            kind, text = 'long', long_program(rng)
            if rng.random() < 0.5:
                text = mutate(rng, text)
            ctx.hit('Totality.long-or-deep-program')
        elif k < 0.25:
            kind, text = 'unicode', random_string(rng)
        elif k < 0.45:
            kind, text = 'tokens', ' '.join(rng.choice(VOCAB) for _ in range(rng.randint(1, 40)))
        else:
            tree = g.program(depth=rng.choice((0, 1, 2)), nstmts=rng.randint(1, 4))
            text = om.render(tree, rng, layout=rng.choice(('canonical', 'random')), case='lower')
            kind, text = 'mutant', mutate(rng, text)
        r = totality(ctx, text, kind)
        if r is not None:
            ctx.case(text, True, sample=dict(kind=kind, text=text[:200], parsed=r))
            ctx.count('texts_' + kind)
