'''
C20 - XSD generation mirrors the component's classes and data types.

Oracle: the reference mapping vf.bpsynth.reference_xsd (diagram -> expected
simple types and class elements) compared with the tree returned by
build_schema after serialisation and re-parsing (well-formedness); edits are
re-mapped by the same reference.
'''
import copy
import os
import shutil
import tempfile
import xml.dom.minidom
import xml.etree.ElementTree as ET

from vf import bpsynth as bp
from vf import bprows
from vf.checks import c14

SHARDS = {'quick': 16, 'thorough': 64}
TIMEOUT = {'quick': 1500, 'thorough': 7200}
MUST_HIT = ['Xsd.two-data-types-of-one-name-in-scope', 'EarlierObject.rechecked', 'Xsd.types-in-nested-package', 'Xsd.attribute-of-unsupported-data-type', 'Xsd.well-formed', 'Xsd.types', 'Xsd.classes', 'Xsd.after-edit', 'Xsd.cli-file',
            'Xsd.enumerator-order', 'Xsd.real-model-edit', 'Xsd.xml-special-names', 'Xsd.class-owned-directly-by-a-component', 'Xsd.type-owned-directly-by-a-component', 'Xsd.class-without-declared-attributes', 'Xsd.edited-in-place-and-generated-again']
MUST_REACH = ['bridgepoint/gen_xsd_schema.py:build_schema', 'bridgepoint/gen_xsd_schema.py:build_component',
              'bridgepoint/gen_xsd_schema.py:build_class', 'bridgepoint/gen_xsd_schema.py:build_enum_type',
              'bridgepoint/gen_xsd_schema.py:build_user_type', 'bridgepoint/gen_xsd_schema.py:build_core_type',
              'bridgepoint/gen_xsd_schema.py:get_refered_attribute', 'bridgepoint/gen_xsd_schema.py:main',
              'bridgepoint/ooaofooa.py:is_global']
ANCHORS = MUST_REACH
MIN_NONTRIVIAL = {'quick': 150, 'thorough': 150}
RULE = ('the C14 diagram generator (classes inside and outside a component, attributes of core / enumeration / '
        'user types incl. a user type over a user type, referential and derived attributes, referentials that refer to a derived identifying attribute) with names '
        'containing XML-special characters, global and component-local enumerations and user types; rows in '
        'random order; then edits: rename / retype / add attribute, add / reorder enumerators, add a user '
        'type, move a class into or out of the component; plus the same kind of edits at the rows of '
        'tests/resources/Simple_Model.xtuml read independently. The generated tree is serialised, re-parsed '
        'and compared as sets of declarations (attribute order is not claimed; enumerator order is). '
        'Non-trivial = the component holds at least one class with an attribute; distinct by hash of rows.'
        ' Also: a further data type carrying the name of one in another package (declarations compared as a multiset).')
ASSUMPTIONS = ['supported types: the five core types boolean/integer/real/string/unique_id, enumerations, and '
               'user types over a supported base; real -> xs:decimal, unique_id -> xs:integer',
               'types in scope: global ones (outside any component) and those inside the component']
LEVEL_TEXT = ('Random exploration with a reference mapping: synthesised and edited BridgePoint models, the XSD '
              'built by the real code compared declaration by declaration (nothing missing, nothing extra) '
              'with an independent expectation, after a serialise / re-parse well-formedness check; held on '
              'all explored models.')
LEVEL_NOTE = 'Trusted: vf/bpsynth.py reference_xsd / observed_xsd and the row reader vf/bprows.py.'
TECHNIQUE = 'runtime monitoring: reference-model oracle (diagram -> expected XSD declarations) + metamorphic edits + well-formedness re-parse'

Mismatch = c14.Mismatch
SPECIAL = ['a<b', 'x&y', 'q"uote', "ap'os", 'gt>', u'\xe5ngstr\xf6m', 'sp ace']


def load(text):
    from bridgepoint import ooaofooa
    l = ooaofooa.ModelLoader(load_globals=True)
    l.input(text)
    return l.build_metamodel()


LIVE = []        # the metamodel and component of the last generate() call


def live_edit(ctx, rng, d, tag):
    '''
    The model is edited in place - a user data type added through the API to the metamodel the schema was just generated
    from, at global scope or inside the component - and the schema generated again from that same metamodel.
    '''
    import xtuml
    from bridgepoint import gen_xsd_schema
    m, c_c = LIVE
    where, pkg_name = rng.choice((('pkg', 'TopPkg'), ('pkg', 'TopPkg'), ('comp', 'Inner')))
    pkg = m.select_any('EP_PKG', lambda sel: sel.Name == pkg_name)
    base = rng.choice(('integer', 'string', 'boolean'))
    core = m.select_any('S_DT', lambda sel: sel.Name == base)
    if pkg is None or core is None:
        return
    name = unique_name(d, 'Live', rng)
    pe = m.new('PE_PE', Visibility=1, type=3)
    dt = m.new('S_DT', Name=name)
    udt = m.new('S_UDT', Gen_Type=0)
    xtuml.relate(dt, pe, 8001)
    xtuml.relate(pe, pkg, 8000)
    xtuml.relate(udt, dt, 17)
    xtuml.relate(udt, core, 18)
    d.udts.append((name, base, where))
    ctx.hit('Xsd.edited-in-place-and-generated-again')
    ctx.later_refresh('schema')
    s = ET.tostring(gen_xsd_schema.build_schema(m, c_c), 'utf-8')
    compare(ctx, d, ET.fromstring(s), '%s, after a user type %s was added to the loaded model (%s)' % (tag, name, pkg_name))


def generate(ctx, text, component):
    from bridgepoint import gen_xsd_schema
    m = load(text)
    c_c = m.select_any('C_C', lambda sel: sel.Name == component)
    LIVE[:] = [m, c_c]
    schema = gen_xsd_schema.build_schema(m, c_c)
    ctx.hit('Xsd.well-formed')
    try:
        s = ET.tostring(schema, 'utf-8')
        xml.dom.minidom.parseString(s)
        root = ET.fromstring(s)
    except Exception as e:
        raise Mismatch('well-formed/%s' % type(e).__name__, 'generated schema is not well-formed XML: %s' % e)
    # generating again from the same loaded model, after other models went through the generator
    ctx.later('schema', (lambda m=m, c_c=c_c: ET.tostring(gen_xsd_schema.build_schema(m, c_c), 'utf-8')),
              'schema generated for the same model')
    return root


_globals = None


def global_types():
    '''user types / enumerations predefined by bridgepoint's global rows, read independently'''
    global _globals
    if _globals is None:
        from bridgepoint import schema as bps
        g = bprows.diagram_from_rows(bprows.parse(bps.globals), None)
        _globals = (g.enums, g.udts)
    return _globals


def compare(ctx, d, root, tag, component='comp'):
    d = copy.copy(d)
    ge, gu = global_types()
    d.enums = list(d.enums) + [e for e in ge if e[0] not in [x[0] for x in d.enums]]
    d.udts = list(d.udts) + [u for u in gu if u[0] not in [x[0] for x in d.udts]]
    exp_t, exp_c = bp.reference_xsd(d, component)
    got_t, got_c, problems, got_further = bp.observed_xsd(root)
    if problems:
        raise Mismatch('declarations/duplicate', '%s: %s' % (tag, '; '.join(problems[:3])))
    ctx.hit('Xsd.types')
    # declarations as a multiset: one per data type in scope, also when two data types (of different packages) carry
    # one name
    exp_twins = bp.reference_xsd_twins(d, component)
    if exp_twins:
        ctx.hit('Xsd.two-data-types-of-one-name-in-scope')
    canon = lambda items: sorted(repr((n, (k, list(v) if isinstance(v, (list, tuple)) else v))) for n, (k, v) in items)
    exp_all = canon(list(exp_t.items()) + exp_twins)
    got_all = canon(list(got_t.items()) + got_further)
    if exp_all == got_all:
        pass
    elif exp_twins or got_further:
        missing = [x for x in exp_all if x not in got_all or exp_all.count(x) > got_all.count(x)]
        extra = [x for x in got_all if x not in exp_all or got_all.count(x) > exp_all.count(x)]
        raise Mismatch('types/declarations-of-same-named-types', '%s: simple type declarations: missing %s, not expected %s'
                       % (tag, missing[:3], extra[:3]))
    elif exp_t != got_t:
        for k in sorted(set(exp_t) | set(got_t)):
            if exp_t.get(k) != got_t.get(k):
                kind = 'missing' if k not in got_t else ('extra' if k not in exp_t else 'differs')
                if kind == 'differs' and exp_t[k][0] == 'enum' and sorted(exp_t[k][1]) == sorted(got_t[k][1] or []):
                    kind = 'enumerator-order'
                raise Mismatch('types/%s' % kind, '%s: simple type %r: expected %r, generated %r'
                               % (tag, k, exp_t.get(k), got_t.get(k)))
    ctx.hit('Xsd.classes')
    if exp_c != got_c:
        for k in sorted(set(exp_c) | set(got_c), key=repr):
            if exp_c.get(k) != got_c.get(k):
                kind = 'missing-class' if k not in got_c else ('extra-class' if k not in exp_c else 'attributes')
                raise Mismatch('classes/%s' % kind, '%s: class %r: expected %r, generated %r'
                               % (tag, k, exp_c.get(k), got_c.get(k)))


def special_names(rng, d):
    '''rename a few plain attributes / enumerators / types with XML-special characters'''
    for c in d.classes:
        for a in c.attrs:
            if a.type is not None and a.name != 'Id' and not any(a.name in i for i in c.identifiers) \
                    and rng.random() < 0.3:
                a.name = a.name + rng.choice(SPECIAL)


def edit(rng, d):
    k = rng.choice(('rename', 'retype', 'add-attr', 'add-enum', 'reorder-enum', 'add-udt', 'move', 'move'))
    if k in ('rename', 'retype', 'move'):
        return c14.edit(rng, d) if k != 'move' else move(rng, d)
    if k == 'add-attr':
        c = rng.choice(d.classes)
        ty = rng.choice(c14.TYPES + ['Color', 'Deep_t', 'void', 'Local_Enum', 'Local_Enum', 'Second_Enum'] + unsupported_types(d, c))
        c.attrs.insert(rng.randint(min(1, len(c.attrs)), len(c.attrs)), bp.Attr(unique_name(d, 'added', rng), ty))
        return ('add-attr', c.kl, ty)
    if k == 'add-enum':
        n, vals, w = d.enums[0]
        fresh = [x for x in (unique_name(d, 'E', rng), 'global', 'True', 'is') if x not in vals]
        vals.insert(rng.randint(0, len(vals)), rng.choice(fresh))
        return ('add-enumerator', n)
    if k == 'reorder-enum':
        n, vals, w = d.enums[0]
        rng.shuffle(vals)
        return ('reorder-enumerators', n, list(vals))
    if k == 'add-udt':
        name = unique_name(d, 'U', rng)
        d.udts.append((name, rng.choice(('integer', 'string', 'Color', 'Count_t', 'void', 'inst_ref<Object>')),
                       rng.choice(('pkg', 'comp', 'deep', 'comp2', 'direct', 'direct2', 'direct-nested'))))
        return ('add-user-type', name)
    return None


def unique_name(d, prefix, rng):
    '''a name no attribute, enumerator or type of the diagram carries yet (two types or attributes of one
    name would be another input than the one the edit is meant to be)'''
    used = set(a.name for c in d.classes for a in c.attrs) | set(n for n, _, _ in d.udts) | \
        set(n for n, _, _ in d.enums) | set(v for _, vals, _ in d.enums for v in vals)
    while True:
        name = '%s%d' % (prefix, rng.randrange(1000))
        if name not in used:
            return name


def unsupported_types(d, c):
    '''data types that are neither core, enumeration nor user type: no attribute may be declared for them'''
    if not d.sdts:
        d.sdts.append(('Struct_t', 'pkg'))
    return ['Struct_t', 'inst_ref<%s>' % c.name, 'inst_ref_set<%s>' % c.name]


def move(rng, d):
    involved = set()
    for r in d.rels:
        if isinstance(r, bp.Simple):
            involved |= set((r.form.kl, r.part.kl))
        elif isinstance(r, bp.Linked):
            involved |= set((r.one.kl, r.other.kl, r.link_kl))
        else:
            involved |= set([r.super_kl] + [s for s, _ in r.subs])
    free = [c for c in d.classes if c.kl not in involved]
    if not free:
        return None
    c = rng.choice(free)
    c.where = rng.choice([w for w in ('pkg', 'comp') + bp.ISOLATED if w != c.where])
    return ('move', c.kl, c.where)


def note_direct(ctx, d):
    if any(c.where.startswith('direct') for c in d.classes):
        ctx.hit('Xsd.class-owned-directly-by-a-component')
    if any(w.startswith('direct') for _, _, w in d.enums + d.udts):
        ctx.hit('Xsd.type-owned-directly-by-a-component')


def one_diagram(ctx, rng, tmpdir):
    d = c14.random_diagram(rng, derived_keys=True)
    # enumerators are declared under their modeled names, also when such a name is a word of Python
    d.enums.append(('Local_Enum', ['L1', 'L2'] if rng.random() < 0.5 else ['L1', 'pass', 'None', 'L2', 'class'], 'comp'))
    # ... and one in the second component (declared for that component only)
    d.enums.append(('Second_Enum', ['S1', 'S2'], 'comp2'))
    for c in d.classes:
        if rng.random() < 0.25:
            # typed by a type that lives in one of the components (the class may be in the other, or move there)
            ctx.hit('Xsd.attribute-typed-by-component-local-type')
            c.attrs.append(bp.Attr(unique_name(d, 'loc', rng), rng.choice(('Local_Enum', 'Second_Enum'))))
    if rng.random() < 0.5:
        # data types two package levels below the component: in scope, declared once
        ctx.hit('Xsd.types-in-nested-package')
        d.enums.append(('Deep_Enum', ['D1', 'D2', 'D3'], rng.choice(('deep', 'direct', 'direct-nested'))))
        d.udts.append(('Deep_Count', rng.choice(('integer', 'Deep_Enum', 'Count_t')), rng.choice(('deep', 'direct', 'direct-nested'))))
    if rng.random() < 0.4:
        # data type names are unique within a package only: a further enumeration / user type carrying the name of one
        # that lives in another package (in scope, or in the other component)
        for _ in range(rng.randint(1, 2)):
            if rng.random() < 0.5:
                name, _, where0 = rng.choice(d.enums)
                twin = ('enum', name, rng.choice((['T1', 'T2'], ['Red', 'Blue'], ['Only'])))
            else:
                name, _, where0 = rng.choice(d.udts)
                twin = ('udt', name, rng.choice(('integer', 'real', 'string', 'boolean')))
            taken = [where0] + [t[3] for t in d.twin_types if t[1] == name]
            free = [w for w in ('pkg', 'comp', 'deep', 'direct', 'comp2', 'nested') if w not in taken]
            if free:
                d.twin_types.append(twin + (rng.choice(free),))
    for c in d.classes:
        if rng.random() < 0.3:
            ctx.hit('Xsd.attribute-of-unsupported-data-type')
            c.attrs.append(bp.Attr(unique_name(d, 'odd', rng), rng.choice(unsupported_types(d, c))))
    if rng.random() < 0.4:
        # classes for which no attribute is declared at all: without attributes, or with attributes of unsupported
        # types only - each is still one element of the component
        where = rng.choice(('comp', 'pkg', 'deep', 'direct'))
        if rng.random() < 0.5:
            d.classes.append(bp.Cls('Bare', 'KB', 97, [], [], where=where))
        else:
            c = bp.Cls('Odd only', 'KO', 96, [], [], where=where)
            c.attrs.append(bp.Attr('o1', rng.choice(unsupported_types(d, c))))
            if rng.random() < 0.5:
                c.attrs.append(bp.Attr('o2', 'integer', derived='self.o2 = 1;'))
            d.classes.append(c)
        ctx.hit('Xsd.class-without-declared-attributes')
    if rng.random() < 0.7:
        special_names(rng, d)
        ctx.hit('Xsd.xml-special-names')
    text = bp.build(d).rows.text(rng)
    note_direct(ctx, d)
    root = generate(ctx, text, 'Comp')
    compare(ctx, d, root, 'generated')
    ctx.hit('Xsd.enumerator-order')
    if rng.random() < 0.4:
        live_edit(ctx, rng, d, 'generated')
        text = bp.build(d).rows.text(rng)
    # the second component of the same model: its own classes and types, the global types; an attribute typed by
    # a type of the first component keeps that type name
    ctx.hit('Xsd.second-component')
    compare(ctx, d, generate(ctx, text, 'Other_Comp'), 'generated for the second component', 'comp2')
    edits = []
    for _ in range(rng.randint(1, 3)):
        e = edit(rng, d)
        if e:
            edits.append(e)
    if edits:
        text = bp.build(d).rows.text(rng)
        note_direct(ctx, d)
        ctx.hit('Xsd.after-edit')
        compare(ctx, d, generate(ctx, text, 'Comp'), 'after edits %r' % (edits,))
        compare(ctx, d, generate(ctx, text, 'Other_Comp'), 'second component after edits %r' % (edits,), 'comp2')
    if rng.random() < 0.25:
        cli(ctx, d, text, tmpdir)
    _, cls = bp.reference_xsd(d)
    return text, any(v for v in cls.values()), edits


def cli(ctx, d, text, tmpdir):
    from bridgepoint import gen_xsd_schema
    src = os.path.join(tmpdir, 'm.xtuml')
    out = os.path.join(tmpdir, 'out.xsd')
    with open(src, 'w', newline='') as f:
        f.write(text)
    gen_xsd_schema.main(['-c', 'Comp', '-o', out, src])
    ctx.hit('Xsd.cli-file')
    try:
        with open(out, encoding='utf-8') as f:
            content = f.read()
        xml.dom.minidom.parseString(content.encode('utf-8'))
        root = ET.fromstring(content.encode('utf-8'))
    except Exception as e:
        raise Mismatch('well-formed/file-%s' % type(e).__name__, 'written schema file is not well-formed: %s' % e)
    compare(ctx, d, root, 'file written by main()')


def real_model(ctx, rng):
    path = os.path.join(ctx.root, 'resources', 'Simple_Model.xtuml')
    base = bprows.parse(open(path).read())
    sites = bprows.edit_sites(base)
    enum_rows = [n for n, (k, v) in enumerate(base) if k == 'S_ENUM']
    jobs = [[]] + [[s] for s in sites if 'attribute' in s[0]]
    for _ in range(16 if ctx.tier == 'quick' else 400):
        jobs.append(rng.sample(sites, rng.randint(2, 4)))
    for script in ctx.chunk(jobs):
        stmts = copy.deepcopy(base)
        for desc, fn in script:
            fn(stmts)
        d = bprows.diagram_from_rows(stmts, 'Comp')
        text = bprows.render(stmts, rng)
        ctx.hit('Xsd.real-model-edit')
        try:
            compare(ctx, d, generate(ctx, text, 'Comp'), 'Simple_Model with %r' % ([s[0] for s in script],))
            ctx.case(('real', tuple(s[0] for s in script)), True,
                     sample=dict(model='Simple_Model.xtuml', edits=[s[0] for s in script]))
        except Mismatch as e:
            ctx.violation(e.key, e.what, case=dict(edits=[s[0] for s in script]))


def run(ctx):
    rng = ctx.rng
    tmpdir = tempfile.mkdtemp(prefix='pyxtuml-verif-c20-')
    try:
        for _ in range(ctx.share(240 if ctx.tier == 'quick' else 10000)):
            try:
                text, nontrivial, edits = one_diagram(ctx, rng, tmpdir)
                ctx.case(text, nontrivial, sample=dict(rows=text[:500], edits=edits))
                ctx.count('diagrams')
            except Mismatch as e:
                ctx.violation(e.key, e.what, case=dict(what=e.what))
        real_model(ctx, rng)
    finally:
        shutil.rmtree(tmpdir, ignore_errors=True)
