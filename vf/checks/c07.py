'''
C07 - OAL parsing follows the precedence table and ignores layout.

Oracle: the generator's own tree (vf.oalmodel) rendered with only the
parentheses the documented precedence/associativity table requires, under any
layout / comments / optional words / keyword case, must come back from
bridgepoint.oal.parse as exactly that tree (strict comparison: class, every
scalar field, number of children).
'''
from vf import oalmodel as om
from vf import oalsyn

SUPPORTS_REPLAY = True
SHARDS = {'quick': 16, 'thorough': 64}
TIMEOUT = {'quick': 1500, 'thorough': 7200}
MUST_HIT = ['StrictAst.exhaustive-expression', 'StrictAst.random-expression', 'StrictAst.statement',
            'Layout.random', 'Production.GeneratePortEventNode', 'Production.CreateInstanceEventNode',
            'Production.SelectRelatedWhereNode', 'Production.RelateUsingNode', 'Production.ForEachNode',
            'Production.empty-statement']
MUST_REACH = ['bridgepoint/oal.py:OALParser.p_arithmetic_expression',
              'bridgepoint/oal.py:OALParser.p_boolean_expression',
              'bridgepoint/oal.py:OALParser.p_unary_expression',
              'bridgepoint/oal.py:OALParser.p_grouped_expression',
              'bridgepoint/oal.py:OALParser.t_COMMENT', 'bridgepoint/oal.py:OALParser.t_SL_STRING',
              'bridgepoint/oal.py:OALParser.t_END_IF', 'bridgepoint/oal.py:OALParser.t_NAMESPACE']
ANCHORS = MUST_REACH + ['bridgepoint/oal.py:parse']
MIN_NONTRIVIAL = {'quick': 5000, 'thorough': 5000}
RULE = ('exhaustive: every expression tree of depth <= 3 over the operator set of the tier (quick: one '
        'operator per precedence class - or, and, ==, +, *, % - and the two unary kinds not / -, over '
        'variable and integer operands = 5462 trees; thorough: all 16 binary and 6 unary operators = '
        '97814 trees, plus a uniform sample of the five-operand-kind space), each written with minimal '
        'parentheses in canonical and in one random layout; random expression trees to depth 7; random '
        'programs over every statement production (assignment forms, invocations incl. bridge / '
        'transform / send, event generation and creation, create/delete, relate/unrelate +-using +-phrase, '
        'all select forms, control flow), 5 layouts each (white space, line breaks, comments, optional '
        'words assign/loop/then/instances of, keyword case, redundant parentheses). Non-trivial = the '
        'tree has at least one operator or is a statement; enumerated trees are distinct by '
        'construction, random ones by hash of the rendered text.')
ASSUMPTIONS = ['the documented precedence table: or < and < comparisons (non-associative) < + - | < * / & ^ '
               '< % < unary; binary operators group to the left',
               'identifiers that are also keywords are not used as variable names']
LEVEL_TEXT = ('Bounded-exhaustive over all expression trees to depth 3 plus random deeper trees and random '
              'programs covering every statement production under random layouts; the parse result is '
              'compared strictly with the generating tree; held on everything explored. Parser tables are '
              'regenerated from the working-tree grammar for every run.')
LEVEL_NOTE = 'Trusted: vf/oalmodel.py (tree constructors, minimal-parenthesis renderer, strict comparer).'
TECHNIQUE = 'runtime monitoring: round-trip oracle (generator tree -> text -> parse -> strict structural comparison) over exhaustive and random programs/layouts'


class Mismatch(Exception):
    def __init__(self, key, what):
        Exception.__init__(self, what)
        self.key = key
        self.what = what


def check(ctx, tree, text, what):
    '''parse *text* and compare with *tree* (a BodyNode model)'''
    from bridgepoint import oal
    from vf.ctx import cpu_budget, BudgetExceeded
    try:
        with cpu_budget(20):
            got = oal.parse(text)
    except oal.ParseException as e:
        raise Mismatch('%s/does-not-parse' % what, 'well-formed text rejected: %s\n%s' % (e, text[:400]))
    except BudgetExceeded as e:
        raise Mismatch('%s/non-termination' % what, '%s\n%s' % (e, text[:400]))
    probs = om.compare(tree, got)
    if probs:
        kind, path, msg = probs[0]
        raise Mismatch('%s/other-tree' % what, '%s at %s\n%s' % (msg, path, text[:400]))


def wrap(expr):
    return om.body([om.assign(om.var('x'), expr)])


def run(ctx):
    rng = ctx.rng
    if ctx.params.get('replay'):
        from bridgepoint import oal
        text = ctx.params['replay']['case']['text']
        print(text)
        try:
            oal.parse(text)
            print('parses')
        except Exception as e:
            print('raises', type(e).__name__, e)
        return
    quick = ctx.tier == 'quick'
    # -- exhaustive depth-3 expression trees ---------------------------------
    if quick:
        un, bi = ['not', '-'], ['or', 'and', '==', '+', '*', '%']
    else:
        un, bi = om.UNARY_OPS, om.BINARY_OPS
    makers = oalsyn.trees(3, oalsyn.atoms(('var', 'int')), un, bi)
    assert len(makers) == oalsyn.count_trees(3, 2, len(un), len(bi))
    n = 0
    for mk in ctx.chunk(makers):
        n += 1
        for layout in ('canonical', 'random'):
            tree = wrap(mk())
            text = om.render(tree, rng, layout=layout, case='lower', optional=False,
                             extra_parens=0.0)
            ctx.hit('StrictAst.exhaustive-expression')
            try:
                check(ctx, tree, text, 'expression')
            except Mismatch as e:
                ctx.violation(e.key, e.what, case=dict(text=text))
        ctx.case_enum(True)
    ctx.set_exhaustive('expression trees', 'depth <= 3, %d unary x %d binary operators x 2 operand kinds'
                       % (len(un), len(bi)), n)
    if ctx.shard == 0:
        ex = wrap(makers[len(makers) // 3]())
        ctx.sample(dict(kind='expression', text=om.render(ex)))
    if not quick:
        # uniform sample of the 5-operand-kind space
        makers5 = None
        atoms5 = oalsyn.atoms(('var', 'int', 'field', 'call', 'str'))
        for _ in range(ctx.share(40000)):
            tree = wrap(random_tree(rng, 3, atoms5, un, bi))
            text = om.render(tree, rng, layout='random', case='random', extra_parens=0.05)
            ctx.hit('StrictAst.random-expression')
            try:
                check(ctx, tree, text, 'expression')
                ctx.case(text, True)
            except Mismatch as e:
                ctx.violation(e.key, e.what, case=dict(text=text))
    # -- random deeper expressions --------------------------------------------
    g = oalsyn.Gen(rng)
    for _ in range(ctx.share(4000 if quick else 200000)):
        depth = rng.randint(2, 7)
        e = g.expr(depth)
        if e.size() > 150:
            continue
        tree = wrap(e)
        text = om.render(tree, rng, layout=rng.choice(('canonical', 'random')), case=rng.choice(('lower', 'random')),
                         extra_parens=rng.choice((0.0, 0.0, 0.1)))
        ctx.hit('StrictAst.random-expression')
        ctx.hit('Layout.random')
        try:
            check(ctx, tree, text, 'expression')
            ctx.case(text, e.size() > 1, sample=dict(kind='expression', text=text))
        except Mismatch as e2:
            ctx.violation(e2.key, e2.what, case=dict(text=text))
    # -- statement productions under random layout -----------------------------
    for _ in range(ctx.share(3000 if quick else 120000)):
        tree = g.program(depth=rng.choice((0, 1, 2, 3)))
        for n_ in tree.walk():
            ctx.hit('Production.' + n_.cls)
        for i in range(5):
            text = om.render(tree, rng, layout='random' if i else 'canonical',
                             case=rng.choice(('lower', 'upper', 'capital', 'random')),
                             optional=(None if i else True), extra_parens=rng.choice((0.0, 0.05)))
            ctx.hit('StrictAst.statement')
            try:
                check(ctx, tree, text, 'statement')
                ctx.case(text, True, sample=dict(kind='program', text=text))
            except Mismatch as e2:
                ctx.violation(e2.key, e2.what, case=dict(text=text))
                break
    report_render_stats(ctx)


def report_render_stats(ctx):
    ctx.hit('Production.empty-statement', om.STATS['empty_statements'])


def random_tree(rng, depth, atom_makers, un, bi):
    if depth == 1 or rng.random() < 0.15:
        return rng.choice(atom_makers)()
    if rng.random() < 0.25:
        return om.unary(rng.choice(un), random_tree(rng, depth - 1, atom_makers, un, bi))
    return om.binary(rng.choice(bi), random_tree(rng, depth - 1, atom_makers, un, bi),
                     random_tree(rng, depth - 1, atom_makers, un, bi))
