'''
C05 - Prebuild followed by text generation reproduces the program.

Oracle: the generator's own tree (vf.oalmodel) compared strictly with
oal.parse(gen_text_action(prebuild(text))); the second translation, done in a
fresh metamodel, must reproduce the first generated text.
'''
from vf import oalmodel as om
from vf import pbgen

SHARDS = {'quick': 16, 'thorough': 64}
TIMEOUT = {'quick': 1800, 'thorough': 7200}
MUST_HIT = ['Generator.unary-plus', 'EarlierObject.rechecked', 'RoundTrip.tree-compared', 'RoundTrip.second-translation', 'Home.function', 'Home.bridge',
            'Home.operation', 'Home.derived', 'Construct.SelectRelatedWhereNode', 'Construct.RelateUsingNode',
            'Construct.ForEachNode', 'Construct.IndexAccessNode', 'Construct.InstanceInvocationNode',
            'Construct.FunctionInvocationNode', 'Construct.EnumOrNamedConstantNode', 'Construct.ParamAccessNode',
            'Construct.IfNode', 'Construct.WhileNode', 'Construct.invocation-in-expression',
            'Construct.multi-parameter-invocation']
MUST_REACH = ['bridgepoint/prebuild.py:prebuild_action', 'bridgepoint/sourcegen.py:gen_text_action',
              'bridgepoint/prebuild.py:ActionPrebuilder.accept_AssignmentNode',
              'bridgepoint/prebuild.py:ActionPrebuilder.accept_ParameterListNode',
              'bridgepoint/prebuild.py:ActionPrebuilder.accept_StatementListNode',
              'bridgepoint/prebuild.py:ActionPrebuilder.accept_NavigationListNode',
              'bridgepoint/sourcegen.py:ActionTextGenWalker.accept_ACT_SEL',
              'bridgepoint/sourcegen.py:ActionTextGenWalker.accept_V_PAR',
              'bridgepoint/sourcegen.py:ActionTextGenWalker.accept_V_TRV',
              'bridgepoint/sourcegen.py:ActionTextGenWalker.accept_V_BRV']
ANCHORS = MUST_REACH
MIN_NONTRIVIAL = {'quick': 300, 'thorough': 300}
RULE = ('programs of 2-12 statements (nesting <= 2) over a fixed synthesised BridgePoint model (5 classes, '
        'simple / reflexive-with-phrases / linked relationships, typed functions, an external entity with '
        'bridges, class and instance operations, a derived attribute, two enumerations, a constant group): '
        'assignments to scalars, attributes and array elements, control flow, create/delete, relate/unrelate '
        '(+using, phrases), all select forms with where clauses and multi-step chains, function / bridge / '
        'class-operation / instance-operation invocations as statements and inside expressions with 0-3 '
        'parameters, parameter reads, enumerators and qualified constants; placed in a function, a bridge, '
        'an instance operation and a derived attribute body. Non-trivial = at least one invocation with two '
        'or more parameters or one select with a chain or where clause; distinct by hash of (home, text).')
ASSUMPTIONS = ['an invocation written NS::name(...) may come back as the same invocation in its bridge/class '
               'spelling (the node classes Implicit/Bridge/ClassInvocationNode are one construct)',
               'constants are written in their qualified form Group::NAME; relationship numbers with a capital R']
LEVEL_TEXT = ('Random exploration (round-trip oracle): generated programs translated to ooaofooa instances and '
              'back to text by the real code; the re-parsed text compared strictly with the generating tree, and '
              'the second translation compared textually with the first; held on all explored programs.')
LEVEL_NOTE = 'Trusted: vf/oalmodel.py strict comparer, vf/pbgen.py generator and model synthesis (vf/bpsynth.py).'
TECHNIQUE = 'runtime monitoring: round-trip oracle (tree -> text -> prebuild -> generated text -> parse -> strict comparison; fixed point of the second translation)'


class Mismatch(Exception):
    def __init__(self, key, what):
        Exception.__init__(self, what)
        self.key = key
        self.what = what


_loader = None


def fresh_model():
    '''a new ooaofooa metamodel holding the universe (one loader per process)'''
    global _loader
    if _loader is None:
        from bridgepoint import ooaofooa
        _loader = ooaofooa.ModelLoader(load_globals=True)
        _loader.input(pbgen.universe_text())
    import xtuml
    return _loader.build_metamodel(xtuml.IntegerGenerator())


def translate(ctx, text, home):
    '''-> (metamodel, home instance, generated text)'''
    from bridgepoint import prebuild, sourcegen
    from vf.ctx import cpu_budget, BudgetExceeded
    m = fresh_model()
    inst = pbgen.home_instance(m, home)
    inst.Action_Semantics_internal = text
    inst.Suc_Pars = 1
    try:
        with cpu_budget(60):
            prebuild.prebuild_action(inst)
            gen = sourcegen.gen_text_action(inst)
    except BudgetExceeded as e:
        raise Mismatch('translate/non-termination', '%s\n%s' % (e, text))
    except Exception as e:
        import traceback
        tb = traceback.extract_tb(e.__traceback__)
        fn = [f.name for f in tb if f.filename.startswith(ctx.root)]
        raise Mismatch('translate/%s@%s' % (type(e).__name__, fn[-1] if fn else '?'),
                       'translation raised %s: %s\n%s' % (type(e).__name__, e, text))
    return m, inst, gen


def mark_alternatives(tree):
    for n in tree.walk():
        if n.cls == 'ImplicitInvocationNode':
            n.alt_cls = ('BridgeInvocationNode', 'ClassInvocationNode')


def classify(probs, tree, gen):
    kind, path, msg = probs[0]
    if 'ParameterNode.name' in msg or ('ParameterListNode' in path and 'name' in msg):
        return 'parameters-reordered'
    if 'StatementListNode' in path and 'expected a' in msg and path.count('/') <= 4:
        return 'statements'
    return 'other-tree'


def check_program(ctx, rng, home):
    from bridgepoint import oal
    g = pbgen.Gen(rng, home)
    tree = g.program()
    mark_alternatives(tree)
    text = om.render(tree, rng, layout=rng.choice(('canonical', 'canonical', 'random')), case=rng.choice(('lower', 'lower', 'lower', 'upper', 'capital', 'random')))
    m, inst, gen = translate(ctx, text, home)
    for n in tree.walk():
        # the keyword self is recorded as spelled in the source; the generated text spells it in lower case
        for k, v in list(n.fields.items()):
            if isinstance(v, str) and v.lower() == 'self':
                n.fields[k] = 'self'
    for n in tree.walk():
        ctx.hit('Construct.' + n.cls)
        if n.cls in ('FunctionInvocationNode', 'ImplicitInvocationNode', 'InstanceInvocationNode'):
            if len(n.kids[-1].kids) >= 2:
                ctx.hit('Construct.multi-parameter-invocation')
    ctx.hit('Home.' + home)
    try:
        got = oal.parse(gen)
    except oal.ParseException as e:
        key = 'generated-text/does-not-parse'
        if ' transform ' in gen or '= bridge ' in gen or ' bridge ' in gen.replace('\n    bridge ', ''):
            key = 'generated-text/statement-keyword-inside-expression'
        raise Mismatch(key, 'generated text does not parse: %s\n--- original\n%s\n--- generated\n%s' % (e, text, gen))
    ctx.later('generated-text', (lambda inst=inst: __import__('bridgepoint').sourcegen.gen_text_action(inst)),
              'text generated from the prebuilt instances')
    ctx.hit('RoundTrip.tree-compared')
    probs = om.compare(tree, got)
    if probs:
        raise Mismatch('round-trip/%s' % classify(probs, tree, gen),
                       '%s at %s\n--- original\n%s\n--- generated\n%s' % (probs[0][2], probs[0][1], text, gen))
    ctx.hit('RoundTrip.second-translation')
    _, _, gen2 = translate(ctx, gen, home)
    if gen2 != gen:
        raise Mismatch('second-translation/text-differs', 'translating the generated text again gives another '
                       'text\n--- first\n%s\n--- second\n%s' % (gen, gen2))
    exprs = [n for n in tree.walk() if n.cls in ('FunctionInvocationNode', 'ImplicitInvocationNode',
                                                 'InstanceInvocationNode')]
    stmts_inv = [n.kids[0] for n in tree.walk() if n.cls == 'InvocationStatementNode']
    if any(all(e is not s for s in stmts_inv) for e in exprs):
        ctx.hit('Construct.invocation-in-expression')
    nontrivial = any(len(n.kids[-1].kids) >= 2 for n in exprs) or \
        any(n.cls in ('SelectRelatedNode', 'SelectRelatedWhereNode', 'SelectFromWhereNode') for n in tree.walk())
    return text, nontrivial


def run(ctx):
    rng = ctx.rng
    n = ctx.share(1200 if ctx.tier == 'quick' else 60000)
    for i in range(n):
        home = pbgen.HOMES[i % len(pbgen.HOMES)]
        try:
            text, nt = check_program(ctx, rng, home)
            ctx.case((home, text), nt, sample=dict(home=home, program=text))
            ctx.count('programs')
        except Mismatch as e:
            ctx.violation(e.key, e.what, case=dict(what=e.what))
    from vf import oalmodel as _om
    ctx.hit('Generator.unary-plus', _om.STATS.get('unary-plus', 0))
