'''
C10 - Names are case-insensitive and every spelling addresses one stored value.

Oracle: one cell per (instance, declared attribute). After every history the
cell is observed through every spelling of the name (exhaustive over the case
patterns of short names): attribute read, serialize_instance, where_eq and
dict filters. Referential attributes read as the partner's identifying value
under every spelling, reject direct writes under every spelling and relate
when given as constructor keyword under every spelling. Class names: lookup,
creation and selection under every spelling address the same class.
'''
import itertools

from vf.xmodel import Schema, Rop, build_api, build_loader

SHARDS = {'quick': 16, 'thorough': 32}
TIMEOUT = {'quick': 900, 'thorough': 3600}
MUST_HIT = ['ClassName.navigation-spellings', 'Cell.where_eq-two-spellings-in-one-filter', 'Cell.where_eq-identifier-twin', 'Cell.two-classes', 'Cell.read-all-spellings', 'Cell.serialize', 'Cell.where_eq',
            'Referential.write-rejected', 'Cell.class-without-associations', 'Referential.ctor-keyword', 'Referential.ctor-two-spellings', 'Ctor.two-spellings-in-one-call', 'Referential.loaded-instance', 'ClassName.spellings',
            'Cell.referred-identifier-written', 'ClassName.whole-model-after-spellings', 'Cell.where_eq-after-delete']
MUST_REACH = ['xtuml/meta.py:Class.__getattr__', 'xtuml/meta.py:Class.__setattr__',
              'xtuml/meta.py:Class.__delattr__', 'xtuml/meta.py:MetaModel.find_metaclass',
              'xtuml/meta.py:MetaClass.new', 'xtuml/meta.py:WhereEqual.__call__',
              'xtuml/persist.py:serialize_instance']
ANCHORS = MUST_REACH + ['xtuml/meta.py:MetaClass.attribute_type']
MIN_NONTRIVIAL = {'quick': 3000, 'thorough': 3000}
RULE = ('exhaustive: for attribute names of length 2, 3 and 4 every history of up to three '
        'operations (write under any of the 2^n spellings with a fresh value, delete under any '
        'spelling, constructor keyword under any spelling as first operation) - for length 4 the '
        'three-write histories are all 16^3 spelling triples - followed by the observation of the '
        'cell through every spelling; plain, identifying and referential attributes; class-name '
        'spellings of a 4-letter kind in new/select/find; random: 50-operation histories over '
        'three attributes interleaved with relate/unrelate, queries and serialization, on instances '
        'made by new() and on instances read back by the loader (null and set references). '
        'Non-trivial = at least two different spellings are used; enumerated histories are '
        'distinct by construction.')
ASSUMPTIONS = ['after a delete the attribute may read as unset (AttributeError) or as null, but '
               'identically under every spelling; deleting a name that is no attribute is not generated']
LEVEL_TEXT = ('Bounded-exhaustive over all case patterns of names up to four letters for histories of '
              'up to three operations, plus random 50-operation histories, each followed by an '
              'observation of the stored cell through every spelling, the serializer and equality '
              'filters; held on all explored histories.')
LEVEL_NOTE = 'Trusted: the one-cell-per-attribute model in vf/checks/c10.py.'
TECHNIQUE = 'runtime monitoring: single-cell reference model observed through every spelling after each write/delete history'


def spellings(name):
    out = []
    for bits in itertools.product((0, 1), repeat=len(name)):
        sp = ''.join(c.upper() if b else c.lower() for c, b in zip(name, bits))
        if sp not in out:
            out.append(sp)       # (characters without letter case give the same spelling twice)
    return out


class Mismatch(Exception):
    def __init__(self, key, what):
        Exception.__init__(self, what)
        self.key = key
        self.what = what


DELETED = '<deleted>'


def schema(attr, ty, with_ref=True):
    # T: the class under test; the attribute under test, a second plain
    # attribute that must never be disturbed, an identifier and a referential
    if not with_ref:
        # the class under test takes part in no association: every attribute is a plain stored value
        return Schema(
            [('Othr', [('Id', 'UNIQUE_ID')]),
             ('Thng', [('Id', 'UNIQUE_ID'), (attr + 'x', 'STRING'), (attr, ty), ('Keep', 'STRING')])],
            [],
            [('Thng', 'I1', ['Id', attr]), ('Othr', 'I1', ['Id'])])
    return Schema(
        [('Othr', [('Id', 'UNIQUE_ID')]),
         # an attribute whose name merely starts with the name under test is declared in front of it
         ('Thng', [('Id', 'UNIQUE_ID'), (attr + 'x', 'STRING'), (attr, ty), ('Keep', 'STRING'), ('Ref', 'UNIQUE_ID')])],
        [Rop(1, 'Thng', ['Ref'], 'MC', '', 'Othr', ['Id'], '1C', '')],
        [('Thng', 'I1', ['Id', attr]), ('Othr', 'I1', ['Id'])])


def observe(ctx, m, inst, declared, ty, cell, sps, keep):
    '''the cell must look the same through every spelling'''
    import xtuml
    ctx.hit('Cell.read-all-spellings')
    outcomes = []
    for sp in sps:
        try:
            outcomes.append(('value', getattr(inst, sp)))
        except AttributeError:
            outcomes.append(('unset', None))
    if cell is DELETED:
        if len(set(map(repr, outcomes))) != 1:
            raise Mismatch('read/deleted-differs-by-spelling',
                           'after delete the spellings read %r' % (dict(zip(sps, outcomes)),))
        if outcomes[0][0] == 'value' and outcomes[0][1] not in (None, '', 0):
            raise Mismatch('read/deleted-still-readable', 'deleted attribute reads %r' % (outcomes[0],))
    else:
        for sp, o in zip(sps, outcomes):
            if o != ('value', cell):
                raise Mismatch('read/stale-or-wrong-under-other-spelling',
                               '%s.%s reads %r, last written %r' % (declared, sp, o, cell))
    longer = getattr(inst, declared + 'x', DELETED)
    if longer != 'LONGER' or getattr(inst, (declared + 'x').upper(), DELETED) != 'LONGER':
        raise Mismatch('read/other-attribute-disturbed', 'attribute %sx (set once when the instance was made) reads %r' % (declared, longer))
    if getattr(inst, 'Keep', DELETED) != keep or getattr(inst, 'KEEP', DELETED) != keep:
        raise Mismatch('read/other-attribute-disturbed',
                       'attribute Keep reads %r, expected %r' % (getattr(inst, 'Keep', DELETED), keep))
    if cell is DELETED:
        return
    ctx.hit('Cell.serialize')
    text = xtuml.serialize_instance(inst)
    want = xtuml.serialize_value(cell, ty)
    lines = [l.strip() for l in text.splitlines()]
    mine = [l for l in lines if l.endswith('-- %s : %s' % (declared, ty))]
    if len(mine) != 1 or not mine[0].startswith(want):
        raise Mismatch('serialize/other-value', 'serialized %r, cell holds %r' % (mine, cell))
    ctx.hit('Cell.where_eq')
    other = cell + 1 if isinstance(cell, int) else cell + 'x'
    for sp in sps:
        for flt in (xtuml.where_eq(**{sp: cell}), {sp: cell}):
            if inst not in m.select_many('Thng', flt):
                raise Mismatch('filter/does-not-match-stored-value',
                               'filter %s=%r does not match (cell %r)' % (sp, cell, cell))
        if inst in m.select_many('Thng', xtuml.where_eq(**{sp: other})):
            raise Mismatch('filter/matches-other-value', 'filter %s=%r matches, cell %r' % (sp, other, cell))
    # one filter that names the attribute under two spellings: both conditions address the one stored value
    if len(sps) >= 2:
        ctx.hit('Cell.where_eq-two-spellings-in-one-filter')
        for s1, s2 in ((sps[0], sps[-1]), (sps[-1], sps[0]), (sps[1], sps[0])):
            if s1 == s2:
                continue
            for f1, f2, want in ((cell, cell, True), (cell, other, False), (other, cell, False)):
                for flt in (xtuml.where_eq(**{s1: f1, s2: f2}), {s1: f1, s2: f2}):
                    if (inst in m.select_many('Thng', flt)) != want:
                        raise Mismatch('filter/two-spellings-in-one-filter',
                                       'filter %s=%r, %s=%r %s (cell %r)'
                                       % (s1, f1, s2, f2, 'does not match' if want else 'matches', cell))
    # a second instance holding the same identifying values (identifiers are declared, not enforced):
    # a filter that covers the whole identifier matches both under every spelling of either name
    ctx.hit('Cell.where_eq-identifier-twin')
    twin = m.new('Thng', **{'Id': inst.Id, declared: cell, 'Keep': 'twin'})
    try:
        for sp_id in ('Id', 'ID', 'id', 'iD'):
            for sp in sps:
                for flt in (xtuml.where_eq(**{sp_id: inst.Id, sp: cell}), {sp: cell, sp_id: inst.Id}):
                    got = list(m.select_many('Thng', flt))
                    if len(got) != 2 or inst not in got or twin not in got:
                        raise Mismatch('filter/does-not-match-stored-value',
                                       'two instances hold %s=%r, %s=%r; the filter over (%s, %s) selects %d of them'
                                       % ('Id', inst.Id, declared, cell, sp_id, sp, len(got)))
    finally:
        xtuml.delete(twin)


def run_attr_history(ctx, route, declared, ty, hist, sps, with_ref=True):
    '''
    hist: list of ('ctor', spelling) | ('write', spelling) | ('delete', spelling)
    values are fresh per write.
    '''
    sch = schema(declared, ty, with_ref)
    if not with_ref:
        ctx.hit('Cell.class-without-associations')
    m = build_api(sch) if route == 'api' else build_loader(sch)
    counter = [0]

    def fresh():
        counter[0] += 1
        return counter[0] if ty == 'INTEGER' else 'v%d' % counter[0]

    keep = 'kept'
    cell = None
    inst = None
    for n, (op, sp) in enumerate(hist):
        if op == 'ctor':
            v = fresh()
            inst = m.new('Thng', **{sp: v, 'Keep': keep, declared + 'x': 'LONGER'})
            cell = v
            continue
        if op == 'ctor2':
            # one constructor call naming the attribute twice, under two spellings: two writes to one cell
            v1, v2 = fresh(), fresh()
            inst = m.new('Thng', **{sp[0]: v1, 'Keep': keep, sp[1]: v2, declared + 'x': 'LONGER'})
            ctx.hit('Ctor.two-spellings-in-one-call')
            cell = getattr(inst, declared)
            if cell not in (v1, v2):
                raise Mismatch('ctor-keyword/two-spellings', 'new(Thng, %s=%r, %s=%r) stored %r' % (sp[0], v1, sp[1], v2, cell))
            continue
        if inst is None:
            inst = m.new('Thng', **{'Keep': keep, declared + 'x': 'LONGER'})
            cell = 0 if ty == 'INTEGER' else ''
        if op == 'read':
            # a read (or an equality filter) under some spelling between the writes must not leave a trace
            try:
                getattr(inst, sp)
            except AttributeError:
                pass
            if cell is not DELETED and n % 2:
                import xtuml
                m.select_many('Thng', xtuml.where_eq(**{sp: cell}))
            continue
        if op == 'write':
            v = fresh()
            setattr(inst, sp, v)
            cell = v
        elif op == 'delete':
            try:
                delattr(inst, sp)
                if cell is DELETED:
                    ctx.count('second-delete-silent')
            except AttributeError:
                if cell is not DELETED:
                    raise Mismatch('delete/raised-on-stored-attribute',
                                   'del .%s raised AttributeError although set' % sp)
            cell = DELETED
    observe(ctx, m, inst, declared, ty, cell, sps, keep)


def referential_checks(ctx, route, sps_ref):
    import xtuml
    sch = schema('Nm', 'STRING')
    m = build_api(sch) if route == 'api' else build_loader(sch)
    o1 = m.new('Othr')
    o2 = m.new('Othr')
    for sp in sps_ref:
        # constructor keyword under every spelling relates
        ctx.hit('Referential.ctor-keyword')
        try:
            t = m.new('Thng', **{sp: o2.Id})
        except xtuml.MetaException as e:
            raise Mismatch('ctor-keyword/referential-spelling-rejected',
                           'new(Thng, %s=<id>) raised %s: %s' % (sp, type(e).__name__, e))
        got = xtuml.navigate_one(t).Othr[1]()
        if got is not o2:
            raise Mismatch('ctor-keyword/referential-spelling-not-related',
                           'new(Thng, %s=<id of o2>) is related to %r' % (sp, got))
        for sp2 in sps_ref:
            if getattr(t, sp2) != o2.Id:
                raise Mismatch('read/referential-spelling', 'Thng.%s reads %r, partner id %r'
                               % (sp2, getattr(t, sp2), o2.Id))
        # the referential keyword twice in one call, under two spellings: one cell, one partner
        for spb in sps_ref:
            if spb == sp:
                continue
            ctx.hit('Referential.ctor-two-spellings')
            try:
                t2 = m.new('Thng', **{sp: o1.Id, spb: o2.Id})
            except xtuml.MetaException as e:
                raise Mismatch('ctor-keyword/referential-two-spellings', 'new(Thng, %s=<id>, %s=<id>) raised %s: %s'
                               % (sp, spb, type(e).__name__, e))
            partner = xtuml.navigate_one(t2).Othr[1]()
            vals = set(getattr(t2, s_) for s_ in sps_ref)
            if partner not in (o1, o2) or vals != set([partner.Id]):
                raise Mismatch('ctor-keyword/referential-two-spellings', 'new(Thng, %s=<id of o1>, %s=<id of o2>): partner %r, '
                               'the spellings read %r' % (sp, spb, partner, vals))
            xtuml.delete(t2)
        # direct writes are rejected under every spelling and change nothing
        ctx.hit('Referential.write-rejected')
        try:
            setattr(t, sp, o1.Id)
            raised = False
        except xtuml.MetaException:
            raised = True
        vals = set(getattr(t, s) for s in sps_ref)
        if vals != set([o2.Id]):
            raise Mismatch('write/referential-spelling-accepted',
                           'after Thng.%s = <other id> (raised=%s) the spellings read %r' % (sp, raised, vals))
        if not raised:
            raise Mismatch('write/referential-spelling-accepted',
                           'Thng.%s = <id> was accepted for a referential attribute' % sp)
        xtuml.unrelate(t, o2, 1)
        if set(getattr(t, s) for s in sps_ref) != set([None]):
            raise Mismatch('read/referential-spelling', 'unlinked referential reads %r'
                           % set(getattr(t, s) for s in sps_ref))
        f = m.select_many('Thng', xtuml.where_eq(**{sp: None}))
        if t not in f:
            raise Mismatch('filter/referential-spelling', 'where_eq(%s=None) misses the unlinked instance' % sp)
        ctx.case_enum(True)


def reload(m):
    '''the same population as loaded instances (serialized text read back by the loader)'''
    import xtuml
    l = xtuml.ModelLoader()
    l.input(xtuml.serialize(m))
    return l.build_metamodel(xtuml.IntegerGenerator())


def loaded_referential_checks(ctx, sps_ref):
    '''
    instances that come out of the loader (one with a null reference, one with
    a set reference): the referential attribute follows the link under every
    spelling through relate / unrelate, and rejects writes under every spelling
    '''
    import xtuml
    sch = schema('Nm', 'STRING')
    for sp in sps_ref:
        m0 = build_api(sch)
        a1, a2 = m0.new('Othr'), m0.new('Othr')
        m0.new('Thng', Nm='null', Keep='k')
        xtuml.relate(m0.new('Thng', Nm='set', Keep='k'), a1, 1)
        m = reload(m0)
        o1 = m.select_one('Othr', xtuml.where_eq(Id=a1.Id))
        o2 = m.select_one('Othr', xtuml.where_eq(Id=a2.Id))
        for start in ('null', 'set'):
            ctx.hit('Referential.loaded-instance')
            t = m.select_one('Thng', xtuml.where_eq(Nm=start))
            want = None if start == 'null' else o1.Id
            hist = ['loaded with %s reference' % start]

            def observe():
                vals = dict((s, getattr(t, s, DELETED)) for s in sps_ref)
                if set(vals.values()) != set([want]):
                    raise Mismatch('read/referential-spelling', 'loaded instance, %s: the spellings read %r, '
                                   'the link gives %r' % (', '.join(hist), vals, want))
                for s in sps_ref:
                    if (t in m.select_many('Thng', xtuml.where_eq(**{s: o2.Id}))) != (want == o2.Id):
                        raise Mismatch('filter/referential-spelling', 'loaded instance, %s: where_eq(%s=<id of o2>) '
                                       'selects wrongly (link gives %r)' % (', '.join(hist), s, want))
            observe()
            if start == 'set':
                xtuml.unrelate(t, o1, 1)
                want = None
                hist.append('unrelate')
                observe()
            xtuml.relate(t, o2, 1)
            want = o2.Id
            hist.append('relate to o2')
            observe()
            try:
                setattr(t, sp, o1.Id)
                raised = False
            except xtuml.MetaException:
                raised = True
            hist.append('write .%s (raised=%s)' % (sp, raised))
            observe()
            if not raised:
                raise Mismatch('write/referential-spelling-accepted',
                               'loaded instance: Thng.%s = <id> was accepted for a referential attribute' % sp)
            xtuml.unrelate(t, o2, 1)
            want = None
            hist.append('unrelate')
            observe()
            ctx.case_enum(True)


def class_name_checks(ctx, route):
    import xtuml
    sch = schema('Nm', 'STRING')
    kinds = spellings('Thng')
    for sp_new in kinds:
        m = build_api(sch) if route == 'api' else build_loader(sch)
        ctx.hit('ClassName.spellings')
        a = m.new(sp_new, Nm='a')
        b = m.new('Thng', Nm='b')
        mc = m.find_metaclass('Thng')
        for sp in kinds:
            if m.find_metaclass(sp) is not mc or m.find_class(sp) is not mc.clazz:
                raise Mismatch('class/lookup-spelling', 'find_metaclass(%r) is another class' % sp)
            got = list(m.select_many(sp))
            if got != [a, b]:
                raise Mismatch('class/select-spelling', 'select_many(%r) gave %r' % (sp, got))
            if m.select_any(sp, xtuml.where_eq(Nm='b')) is not b or m.select_one(sp) is not a:
                raise Mismatch('class/select-spelling', 'select_any/one(%r) wrong' % sp)
            try:
                m.define_class(sp, [])
                raise Mismatch('class/redefinition-accepted', 'define_class(%r) accepted a second Thng' % sp)
            except xtuml.MetaModelException:
                pass
            # whatever spelling addressed the class so far, the model as a whole still holds this one class with
            # these two instances: iterated, serialized and read back
            ctx.hit('ClassName.whole-model-after-spellings')
            n_cls = len(sch.classes)
            if len(set(id(x) for x in m.metaclasses.values())) != n_cls or len(m.metaclasses) != n_cls:
                raise Mismatch('class/registry', 'after addressing Thng as %r the metamodel lists %d classes (%r), '
                               'declared %d' % (sp, len(m.metaclasses), sorted(m.metaclasses), n_cls))
            if len(list(m.instances)) != 2:
                raise Mismatch('class/instances-iterated', 'after addressing Thng as %r the metamodel iterates %d '
                               'instances, created 2' % (sp, len(list(m.instances))))
            text = xtuml.serialize(m)
            if text.count('INSERT INTO') != 2 or text.count('CREATE TABLE') != n_cls:
                raise Mismatch('class/serialized', 'after addressing Thng as %r the model serializes %d instances and '
                               '%d classes (created 2, declared %d)' % (sp, text.count('INSERT INTO'),
                                                                        text.count('CREATE TABLE'), n_cls))
            try:
                m2 = reload(m)
            except Exception as e:
                raise Mismatch('class/serialized', 'after addressing Thng as %r the serialized model does not load: '
                               '%s: %s' % (sp, type(e).__name__, e))
            if sorted(x.Nm for x in m2.select_many('Thng')) != ['a', 'b']:
                raise Mismatch('class/serialized', 'after addressing Thng as %r the model reads back %r'
                               % (sp, [x.Nm for x in m2.select_many('Thng')]))
        ctx.case_enum(True)


def navigation_name_checks(ctx, route):
    '''
    A class name in a navigation step is a class name in a selection: every spelling reaches the same instances -
    over a simple association, from and to an association class, and across it in one step.
    '''
    import xtuml
    UID = 'UNIQUE_ID'
    sch = Schema([('Per', [('Id', UID), ('Nm', 'STRING')]), ('Dog', [('Id', UID), ('Nm', 'STRING')]),
                  ('Own', [('Per_Id', UID), ('Dog_Id', UID)]), ('Toy', [('Id', UID), ('Dog_Id', UID)])],
                 [Rop(1, 'Own', ['Per_Id'], 'MC', '', 'Per', ['Id'], '1', ''),
                  Rop(1, 'Own', ['Dog_Id'], 'MC', '', 'Dog', ['Id'], '1', ''),
                  Rop(2, 'Toy', ['Dog_Id'], 'MC', '', 'Dog', ['Id'], '1C', '')])
    m = build_api(sch) if route == 'api' else build_loader(sch)
    per, d1, d2 = m.new('Per', Nm='p'), m.new('Dog', Nm='d1'), m.new('Dog', Nm='d2')
    o1, o2, toy = m.new('Own'), m.new('Own'), m.new('Toy')
    for own, dog in ((o1, d1), (o2, d2)):
        xtuml.relate(own, per, 1)
        xtuml.relate(own, dog, 1)
    xtuml.relate(toy, d2, 2)
    cases = [(per, 'Dog', 1, [d1, d2]), (per, 'Own', 1, [o1, o2]), (o2, 'Dog', 1, [d2]), (d1, 'Per', 1, [per]),
             (toy, 'Dog', 2, [d2]), (d2, 'Toy', 2, [toy]), (d1, 'Own', 1, [o1])]
    for start, kind, rel, want in cases:
        for sp in spellings(kind):
            ctx.hit('ClassName.navigation-spellings')
            for how in ('nav', 'item', 'one'):
                try:
                    if how == 'nav':
                        got = list(xtuml.navigate_many(start).nav(sp, rel)())
                    elif how == 'item':
                        got = list(getattr(xtuml.navigate_many(start), sp)[rel]())
                    else:
                        one = getattr(xtuml.navigate_one(start), sp)['R%d' % rel]()
                        got = want if one is want[0] else [one]
                except xtuml.MetaException as e:
                    raise Mismatch('class/navigation-spelling', 'navigating from a %s to %r across R%d raised %s: %s'
                                   % (start.__class__.__name__, sp, rel, type(e).__name__, e))
                if got != want:
                    raise Mismatch('class/navigation-spelling', 'navigating from a %s to %r across R%d reaches %r, to '
                                   '%r it reaches %r' % (start.__class__.__name__, sp, rel, got, kind, want))
    ctx.case_enum(True)


def two_class_checks(ctx, route, name):
    '''
    Two classes whose attribute names are equal ignoring case but declared in
    different case (X.<declared1>, Y.<declared2>): every pair of declarations,
    every spelling written on X then on Y; each class keeps its own single cell.
    '''
    import xtuml
    sps = spellings(name)
    n = 0
    for d1 in sps[:2] + sps[-1:]:
        for d2 in sps:
            sch = Schema([('Xcls', [('Id', 'UNIQUE_ID'), (d1, 'STRING')]),
                          ('Ycls', [('Id', 'UNIQUE_ID'), (d2, 'STRING')])], [])
            for s1 in sps:
                for s2 in sps:
                    m = build_api(sch) if route == 'api' else build_loader(sch)
                    x = m.new('Xcls', **{d1: 'x0'})
                    y = m.new('Ycls', **{d2: 'y0'})
                    setattr(x, s1, 'x1')
                    setattr(y, s2, 'y1')
                    setattr(x, s2, 'x2')
                    ctx.hit('Cell.two-classes')
                    for inst, decl, want, kind in ((x, d1, 'x2', 'Xcls'), (y, d2, 'y1', 'Ycls')):
                        for sp in sps:
                            got = getattr(inst, sp)
                            if got != want:
                                raise Mismatch('read/stale-or-wrong-under-other-spelling',
                                               '%s declares %s, other class declares the name as %s: after writes '
                                               'under %s/%s, .%s reads %r, last written %r'
                                               % (kind, decl, d2 if kind == 'Xcls' else d1, s1, s2, sp, got, want))
                        line = [l for l in xtuml.serialize_instance(inst).splitlines() if l.strip().endswith('-- %s : STRING' % decl)]
                        if len(line) != 1 or not line[0].strip().startswith("'%s'" % want):
                            raise Mismatch('serialize/other-value', '%s.%s serialized as %r, cell holds %r'
                                           % (kind, decl, line, want))
                        if inst not in m.select_many(kind, xtuml.where_eq(**{s1: want})):
                            raise Mismatch('filter/does-not-match-stored-value', 'where_eq(%s=%r) misses the %s instance'
                                           % (s1, want, kind))
                    n += 1
                    ctx.case_enum(True)
    return n


def random_history(ctx, rng, route, length):
    '''three attributes, independent spellings, interleaved relate/unrelate/query/serialize'''
    import xtuml
    sch = Schema(
        [('Othr', [('Id', 'UNIQUE_ID')]),
         ('Thng', [('Id', 'UNIQUE_ID'), ('Abc', 'STRING'), ('Keep', 'STRING'), ('Ref', 'UNIQUE_ID'),
                   ('nUm', 'INTEGER')])],
        [Rop(1, 'Thng', ['Ref'], 'MC', '', 'Othr', ['Id'], '1C', '')],
        [('Thng', 'I1', ['Id'])])
    m = build_api(sch) if route == 'api' else build_loader(sch)
    others = [m.new('Othr') for _ in range(3)]
    insts = [m.new('Thng', Keep='k%d' % i) for i in range(3)]
    cells = [dict(Abc='', nUm=0, Keep='k%d' % i, Ref=None) for i in range(3)]
    if route == 'loader':
        # the population as loaded instances: one reference set, two null
        xtuml.relate(insts[0], others[0], 1)
        cells[0]['Ref'] = others[0].Id
        m = reload(m)
        others = [m.select_one('Othr', xtuml.where_eq(Id=o.Id)) for o in others]
        insts = [m.select_one('Thng', xtuml.where_eq(Keep='k%d' % i)) for i in range(3)]
    sps = dict(Abc=spellings('Abc'), nUm=spellings('nUm'), Ref=spellings('Ref'), Id=spellings('Id'))
    log = []
    cnt = 0
    for _ in range(length):
        i = rng.randrange(3)
        inst, cell = insts[i], cells[i]
        k = rng.random()
        if k < 0.45:
            a = rng.choice(('Abc', 'nUm'))
            sp = rng.choice(sps[a])
            cnt += 1
            v = cnt if a == 'nUm' else 's%d' % cnt
            setattr(inst, sp, v)
            cell[a] = v
            log.append(('write', i, sp, v))
        elif k < 0.55:
            a = rng.choice(('Abc', 'nUm'))
            sp = rng.choice(sps[a])
            try:
                delattr(inst, sp)
            except AttributeError:
                if cell[a] is not DELETED:
                    raise Mismatch('delete/raised-on-stored-attribute',
                                   'history %r: del #%d.%s raised AttributeError' % (log[-6:], i, sp))
            cell[a] = DELETED
            log.append(('delete', i, sp))
        elif k < 0.62:
            # the identifying attribute of a referred instance is written under some spelling: every
            # referential attribute that follows a link to it reads the new value under every spelling
            o = rng.randrange(3)
            sp = rng.choice(sps['Id'])
            cnt += 1
            old, new = others[o].Id, 10 ** 6 + cnt
            setattr(others[o], sp, new)
            ctx.hit('Cell.referred-identifier-written')
            for c in cells:
                if c['Ref'] == old:
                    c['Ref'] = new
            log.append(('write-referred-id', o, sp, new))
        elif k < 0.7:
            o = rng.randrange(3)
            if cell['Ref'] is None:
                xtuml.relate(inst, others[o], 1)
                cell['Ref'] = others[o].Id
                log.append(('relate', i, o))
            else:
                o = [x for x in others if x.Id == cell['Ref']][0]
                xtuml.unrelate(inst, o, 1)
                cell['Ref'] = None
                log.append(('unrelate', i))
        else:
            log.append(('observe', i))
        # observation of all instances through random spellings
        for j in range(3):
            for a in ('Abc', 'nUm', 'Ref'):
                sp = rng.choice(sps[a])
                want = cells[j][a]
                try:
                    got = getattr(insts[j], sp)
                except AttributeError:
                    got = DELETED
                if want is DELETED:
                    if got not in (DELETED, None, '', 0):
                        raise Mismatch('read/deleted-still-readable', 'history %r: #%d.%s reads %r'
                                       % (log[-6:], j, sp, got))
                elif got != want:
                    raise Mismatch('read/stale-or-wrong-under-other-spelling',
                                   'history %r: #%d.%s reads %r, expected %r' % (log[-6:], j, sp, got, want))
                if want is not DELETED and not any(c[a] is DELETED for c in cells):
                    sel = m.select_many('tHNG', xtuml.where_eq(**{sp: want}))
                    if insts[j] not in sel:
                        raise Mismatch('filter/does-not-match-stored-value',
                                       'history %r: where_eq(%s=%r) misses #%d' % (log[-6:], sp, want, j))
                elif any(c[a] is DELETED for c in cells):
                    # an instance lacks the attribute: whatever an equality filter on it does (the library lets
                    # the AttributeError of the read escape), it does the same under every spelling of the name
                    ctx.hit('Cell.where_eq-after-delete')
                    outcomes = {}
                    for value in (want if want is not DELETED else None, None):
                        for s2 in sps[a]:
                            try:
                                res = tuple(insts.index(x) for x in m.select_many('Thng', xtuml.where_eq(**{s2: value})))
                            except AttributeError:
                                res = 'AttributeError'
                            outcomes.setdefault((repr(value), repr(res)), []).append(s2)
                        if len([k for k in outcomes if k[0] == repr(value)]) > 1:
                            raise Mismatch('filter/spellings-disagree-after-delete',
                                           'history %r: where_eq(<%s>=%r) gives %r' % (log[-6:], a, value, outcomes))
            if getattr(insts[j], 'kEEP', DELETED) != cells[j]['Keep']:
                raise Mismatch('read/other-attribute-disturbed', 'history %r: #%d.Keep reads %r'
                               % (log[-6:], j, getattr(insts[j], 'Keep', None)))
            if DELETED not in cells[j].values():
                text = xtuml.serialize_instance(insts[j])
                for a, ty in (('Abc', 'STRING'), ('nUm', 'INTEGER'), ('Ref', 'UNIQUE_ID')):
                    want = xtuml.serialize_value(cells[j][a], ty)
                    if not any(l.strip().startswith(want) and l.strip().endswith('-- %s : %s' % (a, ty))
                               for l in text.splitlines()):
                        raise Mismatch('serialize/other-value', 'history %r: %s serialized in %r, cell %r'
                                       % (log[-6:], a, text, cells[j][a]))
    return log


def run(ctx):
    rng = ctx.rng
    jobs = []
    # (names need not begin with a letter: the loader itself makes up _0, _1, ... and BridgePoint models use a_b)
    for declared, ty in (('ab', 'STRING'), ('Nam', 'INTEGER'), ('Wxyz', 'STRING'), ('_kq', 'STRING'), ('x_1', 'INTEGER')):
        sps = spellings(declared)
        # all histories of <= 3 operations over {write, delete} x spellings, ctor as optional first op
        ops = [('write', sp) for sp in sps] + [('delete', sp) for sp in sps]
        reads = [('read', sp) for sp in sps]
        ctor = [('ctor', sp) for sp in sps]
        if len(declared) <= 3:
            for L in (1, 2, 3):
                for hist in itertools.product(ops, repeat=L):
                    jobs.append((declared, ty, hist))
                for first in ctor:
                    for hist in itertools.product(ops, repeat=L - 1):
                        jobs.append((declared, ty, (first,) + hist))
            # reads in between: read-write, write-read-write, write-read-delete, ctor-read-write
            w_ = [('write', sp) for sp in sps]
            d_ = [('delete', sp) for sp in sps]
            for hist in itertools.chain(itertools.product(reads, w_), itertools.product(w_, reads, w_),
                                        itertools.product(w_, reads, d_), itertools.product(ctor, reads, w_)):
                jobs.append((declared, ty, hist))
            ctor2 = [('ctor2', (a, b)) for a in sps for b in sps if a != b]
            for first in ctor2:
                jobs.append((declared, ty, (first,)))
                for o in ops:
                    jobs.append((declared, ty, (first, o)))
        else:
            w = [('write', sp) for sp in sps]
            d = [('delete', sp) for sp in sps]
            for hist in itertools.product(w, repeat=3):
                jobs.append((declared, ty, hist))
            for hist in itertools.product(ctor, w, w):
                jobs.append((declared, ty, hist))
            for a in sps:
                for b in sps:
                    if a != b:
                        jobs.append((declared, ty, (('ctor2', (a, b)),)))
            for hist in itertools.product(w, d, w):
                jobs.append((declared, ty, hist))
            for hist in itertools.product(w, d, d):
                jobs.append((declared, ty, hist))
            for hist in itertools.product(reads, w):
                jobs.append((declared, ty, hist))
            for hist in itertools.product(w, reads, w):
                jobs.append((declared, ty, hist))
            for L in (1, 2):
                for hist in itertools.product(ops, repeat=L):
                    jobs.append((declared, ty, hist))
    count = 0
    for n, (declared, ty, hist) in enumerate(ctx.chunk(jobs)):
        route = 'loader' if n % 61 == 0 else 'api'
        count += 1
        try:
            run_attr_history(ctx, route, declared, ty, hist, spellings(declared), with_ref=(n % 3 != 1))
            ctx.case_enum(len(set(sp for _, sp in hist)) > 1)
        except Mismatch as e:
            ctx.violation(e.key, e.what, case=dict(attr=declared, type=ty, route=route, with_ref=(n % 3 != 1),
                                                   history=[list(h) for h in hist]))
    ctx.set_exhaustive('attribute write/delete/ctor histories x all spellings',
                       'names of length 2,3 (all histories <= 3 ops) and 4 (all write triples, '
                       'ctor-write-write, write-delete-write, write-delete-delete, all <= 2 ops)', count)
    if ctx.shard == 0:
        ctx.sample(dict(attr='Nam', history=[['write', 'NAM'], ['write', 'nam'], ['write', 'NAM']],
                        observe='getattr under 8 spellings, serialize_instance, where_eq/dict under 8 spellings'))
    for route in ('api', 'loader'):
        if ctx.shard % 2 == (0 if route == 'api' else 1):
            try:
                referential_checks(ctx, route, spellings('Ref'))
            except Mismatch as e:
                ctx.violation(e.key, e.what, case=dict(part='referential', route=route))
            if route == 'loader':
                try:
                    loaded_referential_checks(ctx, spellings('Ref'))
                except Mismatch as e:
                    ctx.violation(e.key, e.what, case=dict(part='loaded-referential', route=route))
            try:
                class_name_checks(ctx, route)
            except Mismatch as e:
                ctx.violation(e.key, e.what, case=dict(part='class-names', route=route))
            try:
                navigation_name_checks(ctx, route)
            except Mismatch as e:
                ctx.violation(e.key, e.what, case=dict(part='class-names-in-navigation', route=route))
    if ctx.shard in (2, 3, 4):
        name = {2: 'ab', 3: 'Nam', 4: 'Nam'}[ctx.shard]
        route = 'loader' if ctx.shard == 4 else 'api'
        try:
            two_class_checks(ctx, route, name)
        except Mismatch as e:
            ctx.violation(e.key, e.what, case=dict(part='two-classes', route=route))
    n = ctx.share(600 if ctx.tier == 'quick' else 20000)
    for i in range(n):
        route = 'loader' if i % 5 == 0 else 'api'
        try:
            log = random_history(ctx, rng, route, 50)
            ctx.case(('rnd', log), True, sample=dict(random_history=log[:8]))
            ctx.count('random_histories')
        except Mismatch as e:
            ctx.violation(e.key, e.what, case=dict(part='random', route=route))
