'''
C12 - Loading fails only in documented ways and never half-applies input.

Monitors: exception classification at ModelLoader.input / build_metamodel,
a hard CPU budget per text, and differential replay against a *shadow loader*
that is fed only the accepted texts ("as if the rejected call had not
happened", executed literally).
'''
import traceback

from vf import sqlgen, sqlmut

SUPPORTS_REPLAY = True
SHARDS = {'quick': 16, 'thorough': 64}
TIMEOUT = {'quick': 1500, 'thorough': 7200}
MUST_HIT = ['Classify.input-accepted', 'Classify.input-rejected', 'Classify.build-ok',
            'Classify.build-rejected', 'ShadowLoader.compare', 'ShadowLoader.statements-unchanged',
            'CpuBudget.guarded', 'Route.input', 'Route.file_input', 'Route.filename_input',
            'ShadowLoader.diagnostic-compared', 'Valid.named-inserts-with-different-column-lists', 'Mutant.alias-edit', 'Text.python-blank-that-the-lexer-rejects']
MUST_REACH = ['xtuml/load.py:ModelLoader.t_error', 'xtuml/load.py:ModelLoader.p_error',
              'xtuml/load.py:deserialize_value', 'xtuml/load.py:ModelLoader.p_cardinality_many',
              'xtuml/load.py:ModelLoader.input', 'xtuml/load.py:ModelLoader.build_metamodel']
ANCHORS = MUST_REACH + ['xtuml/load.py:ModelLoader.p_cardinality_1']
MIN_NONTRIVIAL = {'quick': 3000, 'thorough': 3000}
RULE = ('texts: long repetitions of the units the lexer rules loop over (unterminated strings, ids, comments), arbitrary unicode strings (several alphabets incl. quotes, NUL, control and astral '
        'characters), random token sequences of the dialect, and 1-3 token edits (delete, duplicate, '
        'swap, flip of a value\'s lexical class, truncate, case flip, insert, a name replaced by another name of the text in some letter case) of valid files written from '
        'random hostile schemas/populations; each text fed to a loader under a 5 s CPU budget, then '
        'built; sequences of 2-8 accepted/rejected inputs on one loader compared after every step with '
        'a shadow loader that received only the accepted texts. Non-trivial = the text is not accepted '
        'unchanged (it was rejected by input() or by build, or it is a mutated file that still loads); '
        'distinct by hash of the text.')
ASSUMPTIONS = ['documented failures are ParsingException from input(), ParsingException or MetaException '
               'from build_metamodel()', 'normal cost of an 8 KB text is < 50 ms CPU; the budget is 5 s']
LEVEL_TEXT = ('Random exploration (fuzzing with an exception classifier and a differential shadow loader): '
              'held on all explored texts and input sequences; no claim beyond them.')
LEVEL_NOTE = 'Trusted: the classifier and shadow-loader comparison in vf/checks/c12.py; serialize() is used to compare builds.'
TECHNIQUE = 'runtime monitoring: exception classifier + CPU-budget failpoint + differential shadow-loader replay over mutated and random inputs'


def innermost_repo_function(exc, root):
    tb = traceback.extract_tb(exc.__traceback__)
    for f in reversed(tb):
        if f.filename.startswith(root):
            return f.name
    return tb[-1].name if tb else '?'


import random
ROUTE_RNG = random.Random(12)     # which input method a text takes (independent of the text generator)


LAST_ROUTE = ['input']


def try_input(ctx, loader, text):
    '''-> (accepted, exception or None)'''
    import xtuml
    n = len(loader.statements)
    ctx.hit('CpuBudget.guarded')
    ctx.guard(5 + len(text) // 2000, 'cpu-budget/input', dict(text=text))
    route = 'input'
    k = ROUTE_RNG.random()
    if k < 0.1:
        route = 'file_input'
    elif k < 0.2:
        try:
            text.encode('utf-8')
            route = 'filename_input'
        except UnicodeError:
            pass
    ctx.hit('Route.' + route)
    LAST_ROUTE[0] = route
    try:
        if route == 'input':
            loader.input(text)
        elif route == 'file_input':
            import io
            f = io.StringIO(text)
            f.name = 'stream'
            loader.file_input(f)
        else:
            import os
            import tempfile
            fd, path = tempfile.mkstemp(prefix='pyxtuml-verif-c12-', suffix='.sql')
            try:
                with os.fdopen(fd, 'w', encoding='utf-8', newline='') as f:
                    f.write(text)
                loader.filename_input(path)
            finally:
                os.remove(path)
        ok, exc = True, None
    except xtuml.ParsingException as e:
        ok, exc = False, e
    except Exception as e:
        ctx.unguard()
        ctx.violation('input/%s@%s' % (type(e).__name__, innermost_repo_function(e, ctx.root)),
                      'input() raised %s: %s' % (type(e).__name__, str(e)[:200]), case=dict(text=text))
        return None, e
    finally:
        ctx.unguard()
    if ok:
        ctx.hit('Classify.input-accepted')
    else:
        ctx.hit('Classify.input-rejected')
        ctx.hit('ShadowLoader.statements-unchanged')
        if len(loader.statements) != n:
            ctx.violation('partial-application/statements-grew',
                          'rejected input left %d new statements behind' % (len(loader.statements) - n),
                          case=dict(text=text))
    return ok, exc


def try_build(ctx, loader, texts):
    '''-> ('ok', serialized) | ('rejected', exception type name, message) | None on violation'''
    import xtuml
    ctx.guard(20, 'cpu-budget/build', dict(texts=texts))
    try:
        m = loader.build_metamodel(xtuml.IntegerGenerator())
        res = ('ok', None)
        ctx.hit('Classify.build-ok')
    except (xtuml.ParsingException, xtuml.MetaException) as e:
        ctx.hit('Classify.build-rejected')
        ctx.unguard()
        return ('rejected', type(e).__name__, str(e))
    except Exception as e:
        ctx.unguard()
        ctx.violation('build/%s@%s' % (type(e).__name__, innermost_repo_function(e, ctx.root)),
                      'build_metamodel() raised %s: %s' % (type(e).__name__, str(e)[:200]),
                      case=dict(texts=texts))
        return None
    finally:
        ctx.unguard()
    try:
        return ('ok', xtuml.serialize(m))
    except Exception as e:
        # a model that loads but cannot be written is outside this property; note it
        ctx.count('built-model-not-serializable:%s' % type(e).__name__)
        return ('ok', 'unserializable:%s' % type(e).__name__)


VALID_SHAPES = {}
ODD_BLANKS = [0]


def valid_file(rng):
    schema = sqlgen.random_schema(rng, hostile_names=rng.random() < 0.5, max_classes=3, max_attrs=4)
    pop, _ = sqlgen.resolved_population(rng, schema, max_inst=3)
    stmts = sqlgen.schema_statements(schema)
    ins = sqlgen.insert_statements(schema, pop, rng, named=True, omit_unset=rng.random() < 0.5)
    stmts += [t for _, _, t in ins]
    lists = {}
    for kind, _, t in ins:
        if ' VALUES' in t and t.split(' VALUES')[0].endswith(')'):
            lists.setdefault(kind, set()).add(t.split(' VALUES')[0])
    if any(len(v) > 1 and len(set(len(x.split(',')) for x in v)) > 1 for v in lists.values()):
        # named inserts into one table with column lists of different length
        VALID_SHAPES['Valid.named-inserts-with-different-column-lists'] = \
            VALID_SHAPES.get('Valid.named-inserts-with-different-column-lists', 0) + 1
    if rng.random() < 0.3:
        rng.shuffle(stmts)
    return '\n'.join(stmts) + '\n'


def hostile_repetition(rng):
    '''long runs of the characters the lexer rules loop over, mostly unterminated'''
    n = rng.choice((25, 30, 200, 2000))
    unit = rng.choice(("a", "''", "a'", "'a", '\\"', "\\", '-', '--', ' ', '\n', 'a\n', '1', '1.', '.1', '"', 'R1', '1C'))
    head = rng.choice(("--", "'", '"', "-- '", "INSERT INTO X VALUES ('", 'INSERT INTO X VALUES ("', '', '-'))
    tail = rng.choice(('', '', "'", '"', '\n', ');', 'x'))
    return head + unit * n + tail


def odd_blank(rng):
    '''
    a character that is white space for Python's str methods but not for the lexer, after some text and followed by
    nothing but blanks (or by more text)
    '''
    ch = rng.choice(('\x0b', '\x0c', '\x1c', '\x1d', '\x1e', '\x1f', '\x85', '\xa0', '\u1680', '\u2000', '\u2028', '\u2029',
                     '\u202f', '\u205f', '\u3000'))
    head = rng.choice(('', '', ' ', '\n', "INSERT INTO X VALUES (1);\n", 'CREATE TABLE X (Id INTEGER);', '-- c\n', valid_file(rng)))
    tail = rng.choice(('', '', ' ', '  \n', '\n\n', '\t', ' x', ';', ch, ' ' + ch + ' '))
    return head + ch + tail


def gen_text(rng):
    k = rng.random()
    if k < 0.02:
        ODD_BLANKS[0] += 1
        return 'odd-blank', odd_blank(rng)
    if k < 0.05:
        return 'repetition', hostile_repetition(rng)
    if k < 0.15:
        return 'unicode', sqlmut.random_string(rng, rng.choice((5, 40, 400)))
    if k < 0.30:
        return 'tokens', sqlmut.random_tokens(rng, rng.randint(1, 40))
    if k < 0.36:
        return 'valid', valid_file(rng)
    return 'mutant', sqlmut.mutate(rng, valid_file(rng), rng.choice((1, 1, 1, 2, 3)))


def single_texts(ctx, rng, n):
    import xtuml
    for _ in range(n):
        kind, text = gen_text(rng)
        loader = xtuml.ModelLoader()
        ok, exc = try_input(ctx, loader, text)
        if ok is None:
            continue
        built = try_build(ctx, loader, [text]) if ok else None
        nontrivial = (not ok) or (built and built[0] == 'rejected') or kind == 'mutant'
        ctx.case(text, bool(nontrivial), sample=dict(kind=kind, text=text[:300], accepted=ok,
                                                      build=built[0] if built else None))
        ctx.count('texts_' + kind)


def sequences(ctx, rng, n):
    import xtuml
    for _ in range(n):
        loader = xtuml.ModelLoader()
        accepted = []
        steps = []
        plain = True
        for _ in range(rng.randint(2, 8)):
            kind, text = gen_text(rng)
            if rng.random() < 0.4:
                # fragments of one valid file so that later inputs depend on earlier ones
                text = valid_file(rng)
                cut = text.find(';', rng.randrange(len(text))) + 1
                text = text[:cut] if rng.random() < 0.5 else text[cut:]
            ok, exc = try_input(ctx, loader, text)
            if ok is None:
                break
            steps.append((text, ok))
            plain = plain and LAST_ROUTE[0] == 'input'
            if ok:
                accepted.append(text)
            elif LAST_ROUTE[0] == 'input' and exc is not None:
                # the diagnostic of a rejected text is the one a loader without any history gives for it
                ctx.hit('ShadowLoader.diagnostic-compared')
                fresh = xtuml.ModelLoader()
                try:
                    fresh.input(text)
                    other = None
                except xtuml.ParsingException as e2:
                    other = str(e2)
                if other is not None and other != str(exc):
                    ctx.violation('partial-application/diagnostic-differs',
                                  'after %d inputs (%d rejected) a rejected text is reported as %r, a fresh loader '
                                  'reports %r' % (len(steps) - 1, len(steps) - 1 - len(accepted), str(exc)[:200], other[:200]),
                                  case=dict(steps=steps))
                    break
            # differential replay: a fresh loader fed only the accepted texts
            ctx.hit('ShadowLoader.compare')
            shadow = xtuml.ModelLoader()
            for t in accepted:
                shadow.input(t)
            a = try_build(ctx, loader, [t for t, _ in steps])
            b = try_build(ctx, shadow, accepted)
            if a is None or b is None:
                break
            if not plain:
                # texts that came in under a file name carry that name in their diagnostics
                a, b = a[:2], b[:2]
            if a != b:
                ctx.violation('partial-application/build-differs',
                              'after %d inputs (%d rejected) the build differs from a loader that saw only '
                              'the accepted texts: %r vs %r' % (len(steps), len(steps) - len(accepted),
                                                                str(a)[:200], str(b)[:200]),
                              case=dict(steps=steps))
                break
        ctx.case(('seq', tuple(steps)), any(not ok for _, ok in steps),
                 sample=dict(sequence=[(t[:80], ok) for t, ok in steps]))
        ctx.count('sequences')


def run(ctx):
    rng = ctx.rng
    if ctx.params.get('replay'):
        case = ctx.params['replay']['case']
        import xtuml
        loader = xtuml.ModelLoader()
        for text in ([case['text']] if 'text' in case else case.get('texts') or [t for t, _ in case['steps']]):
            ok, exc = try_input(ctx, loader, text)
            print('input ->', ok, exc)
        print('build ->', try_build(ctx, loader, []))
        return
    single_texts(ctx, rng, ctx.share(24000 if ctx.tier == 'quick' else 2000000))
    sequences(ctx, rng, ctx.share(1200 if ctx.tier == 'quick' else 60000))
    for k, n in VALID_SHAPES.items():
        ctx.hit(k, n)
    for k, n in sqlmut.COUNTS.items():
        ctx.hit(k, n)
    ctx.hit('Text.python-blank-that-the-lexer-rejects', ODD_BLANKS[0])
