'''
C02 - Links stay symmetric, bounded and atomic through any operation history.

History + executable model: every call of a history is applied to the real
metamodel and to vf.xmodel.Shadow; outcome class (ok / documented exception)
and the complete observable state (pools, both navigation directions of every
association from every instance - dead ones included -, referential reads,
Link-dict mirror) are compared; rejected calls must leave an identical
identity-level snapshot.
'''
import itertools

from vf.xmodel import Schema, Rop, Bound, Outcome, build_api, build_loader, \
    mirror_problems, snapshot

SUPPORTS_REPLAY = True
SHARDS = {'quick': 16, 'thorough': 64}
TIMEOUT = {'quick': 1200, 'thorough': 7200}
MUST_HIT = ['Outcome.new', 'ShadowModel.compare', 'LinkMirror', 'Atomicity.rejected',
            'Outcome.RelateException', 'Outcome.UnrelateException',
            'Outcome.UnknownLinkException', 'Outcome.DeleteException', 'Schema.random',
            'Schema.random-three-or-more-associations', 'Schema.ooaofooa-part',
            'Schema.ooaofooa-part-with-compound-key', 'Ambient.relate.accepted', 'Ambient.relate.rejected',
            'Ambient.unrelate.accepted', 'Ambient.delete.accepted', 'Ambient.Suite.tests-passed']
MUST_REACH = ['xtuml/meta.py:relate', 'xtuml/meta.py:unrelate', 'xtuml/meta.py:_find_link',
              'xtuml/meta.py:Link.connect', 'xtuml/meta.py:Link.disconnect',
              'xtuml/meta.py:MetaClass.delete', 'xtuml/meta.py:Association.formalize']
ANCHORS = MUST_REACH + ['xtuml/meta.py:delete', 'xtuml/load.py:ModelLoader.populate_associations']
MIN_NONTRIVIAL = {'quick': 5000, 'thorough': 5000}
RULE = ('exhaustive: for each association shape (simple with every src/tgt multiplicity, '
        'reflexive with phrases, association class with two formalisations incl. the reflexive '
        'one, subtype/supertype sharing an identifier with a dependent class, two-attribute key) '
        'every history up to the depth bound over the shape\'s alphabet (relate/unrelate of every '
        'instance pair in referring-first order, one pair in reversed order, wrong/missing/swapped '
        'phrase, unknown association, None argument, delete of up to three instances, creation of one more '
        'referring instance and its relate) on pools of '
        'two instances per class, oracle after the last call (every prefix is itself enumerated); '
        'random: histories of 200-2000 calls on pools of 6-10 instances, every third one over a random schema '
        '(vf/sqlgen.random_schema: up to five associations of every shape incl. compound keys, key chains, shared '
        'referential attributes, one-sided phrases, keyword-like names), mirror after every call, '
        'full comparison every 16 calls and at the end. Non-trivial = the history passes through '
        'at least two different link states or contains a rejected call; enumerated histories are '
        'distinct by construction, random ones by hash.')
ASSUMPTIONS = ['the relational shadow model in vf/xmodel.py states the property',
               'schemas whose phrases do not determine a direction (reflexive without distinct '
               'phrases) are not generated',
               'a referential attribute that formalises two associations may read as either '
               'partner\'s identifying value when the partners disagree']
LEVEL_TEXT = ('Bounded-exhaustive (depth 4 quick / 5-6 thorough on two-instance pools, per shape) and '
              'random (to 2000 calls) operation histories executed on the real metamodel with a '
              'relational reference model deciding outcome and full state after the calls; held on '
              'all explored histories, no claim beyond them.')
LEVEL_NOTE = ('Trusted: vf/xmodel.py Shadow (resolution, multiplicity and delete rules written from '
              'the property text), CPython. Metamodels built through define_association+formalize '
              'and through the loader.')
TECHNIQUE = 'runtime monitoring: history + executable relational model, link-mirror invariant and atomicity snapshots at every relate/unrelate/delete call'

UID = 'UNIQUE_ID'


def shapes():
    S = []
    for sc in ('1', '1C', 'M', 'MC'):
        for tc in ('1', '1C', 'M'):
            S.append(('simple-%s-%s' % (sc, tc), Schema(
                [('A', [('Id', UID), ('Name', 'STRING')]),
                 ('B', [('Id', UID), ('A_Id', UID)])],
                [Rop(1, 'B', ['A_Id'], sc, '', 'A', ['Id'], tc, '')])))
    for sc, tc in (('1C', '1C'), ('MC', '1C'), ('1', '1')):
        S.append(('reflexive-%s-%s' % (sc, tc), Schema(
            [('P', [('Id', UID), ('Next_Id', UID)])],
            [Rop(2, 'P', ['Next_Id'], sc, 'precedes', 'P', ['Id'], tc, 'succeeds')])))
    S.append(('assoc-class', Schema(
        [('X', [('Id', UID)]), ('Y', [('Id', UID)]),
         ('L', [('X_Id', UID), ('Y_Id', UID), ('W', 'INTEGER')])],
        [Rop(3, 'L', ['X_Id'], 'MC', '', 'X', ['Id'], '1', ''),
         Rop(3, 'L', ['Y_Id'], 'MC', '', 'Y', ['Id'], '1', '')])))
    S.append(('assoc-class-1-1', Schema(
        [('X', [('Id', UID)]), ('Y', [('Id', UID)]),
         ('L', [('X_Id', UID), ('Y_Id', UID)])],
        [Rop(3, 'L', ['X_Id'], '1C', '', 'X', ['Id'], '1', ''),
         Rop(3, 'L', ['Y_Id'], '1C', '', 'Y', ['Id'], '1', '')])))
    S.append(('assoc-class-reflexive', Schema(
        [('Assoc', [('one_side_ID', UID), ('other_side_ID', UID)]),
         ('Class', [('ID', UID)])],
        [Rop(1, 'Assoc', ['one_side_ID'], 'MC', 'one', 'Class', ['ID'], '1', 'other'),
         Rop(1, 'Assoc', ['other_side_ID'], 'MC', 'other', 'Class', ['ID'], '1', 'one')])))
    S.append(('subsuper', Schema(
        [('Sup', [('Id', UID)]), ('Sub1', [('Id', UID)]), ('Sub2', [('Id', UID)]),
         ('C', [('Id', UID), ('Sub_Id', UID)])],
        [Rop(4, 'Sub1', ['Id'], '1C', '', 'Sup', ['Id'], '1', ''),
         Rop(4, 'Sub2', ['Id'], '1C', '', 'Sup', ['Id'], '1', ''),
         Rop(5, 'C', ['Sub_Id'], 'MC', '', 'Sub1', ['Id'], '1', '')])))
    S.append(('two-attribute-key', Schema(
        [('T', [('K1', 'INTEGER'), ('K2', 'STRING')]),
         ('S', [('Id', UID), ('T_K1', 'INTEGER'), ('T_K2', 'STRING')])],
        [Rop(6, 'S', ['T_K1', 'T_K2'], 'MC', '', 'T', ['K1', 'K2'], '1C', '')])))
    S.append(('shared-referential', Schema(
        [('A', [('Id', UID)]), ('D', [('Id', UID)]),
         ('B', [('Id', UID), ('Ref', UID)])],
        [Rop(7, 'B', ['Ref'], 'MC', '', 'A', ['Id'], '1C', ''),
         Rop(8, 'B', ['Ref'], '1C', '', 'D', ['Id'], '1C', '')])))
    return S


def make_pool(schema, per_class):
    '''[(kind, index)] in creation order: referred classes first'''
    pool = []
    for kind, _ in schema.classes:
        for i in range(per_class):
            pool.append((kind, i))
    return pool


def alphabet(schema, pool, max_delete=3, invalid_calls=True):
    '''
    operations as tuples; instance references are indexes into *pool*.
    '''
    idx = {}
    for n, (kind, i) in enumerate(pool):
        idx.setdefault(kind, []).append(n)
    ops = []
    seen_pairs = set()
    for r in schema.rops:
        first = True
        for s in idx[r.src]:
            for t in idx[r.tgt]:
                if s == t:
                    continue
                ops.append(('relate', s, t, r.rel, r.src_phrase))
                ops.append(('unrelate', s, t, r.rel, r.src_phrase))
                if first:
                    first = False
                    # the same pair named from the referred end
                    ops.append(('relate', t, s, r.rel, r.tgt_phrase))
                    ops.append(('unrelate', t, s, r.rel, r.tgt_phrase))
                    # calls that are invalid whatever the multiplicities: once per family of shapes
                    if (r.rel, r.src, r.tgt) not in seen_pairs and invalid_calls:
                        seen_pairs.add((r.rel, r.src, r.tgt))
                        ops.append(('relate', s, t, r.rel, 'no such phrase'))
                        ops.append(('relate', s, t, 99, r.src_phrase))
                        ops.append(('unrelate', s, t, r.rel, 'no such phrase'))
                        if r.src_phrase:
                            ops.append(('relate', s, t, r.rel, ''))
                        ops.append(('relate', None, t, r.rel, r.src_phrase))
                        ops.append(('unrelate', s, None, r.rel, r.src_phrase))
        if r.src == r.tgt and idx[r.src]:
            s = idx[r.src][0]
            ops.append(('relate', s, s, r.rel, r.src_phrase))
    # instance creation inside the history: the new instance gets the next pool index and can be
    # related to the first referred instance afterwards
    r0 = schema.rops[0]
    ops.append(('new', r0.src))
    nxt = len(pool)
    if idx[r0.tgt]:
        ops.append(('relate', nxt, idx[r0.tgt][0], r0.rel, r0.src_phrase))
    dels = []
    for kind in idx:
        dels.append(idx[kind][0])
    for kind in idx:
        if len(dels) < max_delete and len(idx[kind]) > 1:
            dels.append(idx[kind][1])
    for d in dels[:max_delete]:
        ops.append(('delete', d))
    # relate an unrelated kind pair (no association between them at all)
    kinds = list(idx)
    if len(kinds) >= 2:
        a, b = idx[kinds[0]][0], idx[kinds[0]][-1]
        if a != b and not any(r.src == kinds[0] and r.tgt == kinds[0] for r in schema.rops):
            ops.append(('relate', a, b, schema.rops[0].rel, ''))
    out = []
    for op in ops:
        if op not in out:
            out.append(op)
    return out


class OutOfDomain(Exception):
    pass


class Mismatch(Exception):
    def __init__(self, key, what):
        Exception.__init__(self, what)
        self.key = key
        self.what = what


def setup(schema, pool, route, seed_values=True):
    if route == 'ooaofooa':
        # the complete ooaofooa metamodel (about 400 classes, 650 associations); the schema is a part of it
        from bridgepoint import ooaofooa
        import xtuml
        m = ooaofooa.ModelLoader(load_globals=False).build_metamodel(xtuml.IntegerGenerator())
    else:
        m = build_api(schema) if route == 'api' else build_loader(schema)
    b = Bound(schema, m)
    handles = []
    for n, (kind, i) in enumerate(pool):
        vals = {}
        ref = set(a.upper() for a in schema.referential(kind))
        for a, ty in schema.attrs(kind):
            if a.upper() in ref or (kind.upper(), a.upper()) in getattr(schema, 'external_refs', ()):
                continue
            if ty == 'INTEGER':
                vals[a] = 10 + n
            elif ty == 'STRING':
                vals[a] = 's%d' % n
        handles.append(b.new(kind, **vals))
    return b, handles


def step(ctx, b, handles, op, check_atomic=True):
    '''
    Apply one operation to library and shadow; compare the outcome class;
    returns the outcome.
    '''
    import xtuml
    sh = b.shadow
    name = op[0]
    before = snapshot(b.m) if check_atomic else None
    if name == 'new':
        handles.append(b.new(op[1]))
        ctx.hit('Outcome.new')
        return Outcome.OK
    if name == 'delete':
        h = handles[op[1]]
        exp = sh.delete(h)
        try:
            xtuml.delete(b.inst[h])
            got = Outcome.OK
        except xtuml.DeleteException:
            got = Outcome.DELETE
        except Exception as e:
            got = 'unexpected %s: %s' % (type(e).__name__, e)
    else:
        if any(i is not None and i >= len(handles) for i in (op[1], op[2])):
            raise OutOfDomain()           # addresses an instance that was not created (yet)
        x = handles[op[1]] if op[1] is not None else None
        y = handles[op[2]] if op[2] is not None else None

        fn_sh = sh.relate if name == 'relate' else sh.unrelate
        fn = xtuml.relate if name == 'relate' else xtuml.unrelate
        if name == 'relate' and ((x is not None and not sh.alive[x]) or
                                 (y is not None and not sh.alive[y])):
            # relating an instance that was deleted: outside the statement
            # (neither listed as rejected nor meaningful as accepted)
            raise OutOfDomain()
        exp = fn_sh(x, y, op[3], op[4])
        if exp == Outcome.AMBIGUOUS:
            ctx.count('ambiguous_calls_skipped')
            return Outcome.FALSE
        try:
            r = fn(b.inst.get(x), b.inst.get(y), op[3], op[4])
            got = Outcome.OK if r is True else (Outcome.FALSE if r is False else 'returned %r' % (r,))
        except xtuml.UnknownLinkException:
            got = Outcome.UNKNOWN
        except xtuml.RelateException:
            got = Outcome.RELATE
        except xtuml.UnrelateException:
            got = Outcome.UNRELATE
        except Exception as e:
            got = 'unexpected %s: %s' % (type(e).__name__, e)
    ctx.hit('Outcome.' + exp)
    if exp == Outcome.AMBIGUOUS:
        raise AssertionError('generated an ambiguous call %r' % (op,))
    if got != exp:
        raise Mismatch('outcome/%s-instead-of-%s' % (got.split(':')[0], exp),
                       '%r: library %s, model %s' % (op, got, exp))
    if exp not in (Outcome.OK,) and check_atomic:
        ctx.hit('Atomicity.rejected')
        after = snapshot(b.m)
        if after != before:
            diff = [x for x in after if x not in before][:3]
            raise Mismatch('atomicity/%s' % exp, 'rejected call %r (%s) changed the model: %r'
                           % (op, exp, diff))
    return exp


def full_compare(ctx, b):
    ctx.hit('ShadowModel.compare')
    ctx.hit('LinkMirror')
    diffs = b.compare()
    if diffs:
        key, text = diffs[0]
        raise Mismatch('state/' + key, '; '.join(t for _, t in diffs[:4]))


def run_history(ctx, schema, pool, route, hist, every=0):
    from vf.ctx import cpu_budget, BudgetExceeded
    try:
        with cpu_budget(10 + len(hist) // 10):
            return _run_history(ctx, schema, pool, route, hist, every)
    except BudgetExceeded as e:
        raise Mismatch('non-termination', str(e))


def _run_history(ctx, schema, pool, route, hist, every):
    b, handles = setup(schema, pool, route)
    sh = b.shadow
    states = set([sh.canon()])
    rejected = 0
    last = len(hist) - 1
    for n, op in enumerate(hist):
        try:
            if op[0] == 'new' and len(handles) > len(pool) and not every:
                raise OutOfDomain()       # enumerated histories create at most one extra instance
            out = step(ctx, b, handles, op, check_atomic=(n == last or every))
        except OutOfDomain:
            if every:
                ctx.count('random_calls_skipped_relate_of_deleted_instance')
                continue
            raise
        if out not in (Outcome.OK, Outcome.FALSE):
            rejected += 1
        states.add(sh.canon())
        if every:
            probs = mirror_problems(b.m)
            ctx.hit('LinkMirror')
            if probs:
                raise Mismatch('state/mirror', '; '.join(probs[:3]))
            if n % every == every - 1:
                full_compare(ctx, b)
    full_compare(ctx, b)
    return len(states) > 1 or rejected > 0


def random_history(rng, schema, pool, length):
    idx = {}
    for n, (kind, i) in enumerate(pool):
        idx.setdefault(kind, []).append(n)
    hist = []
    for _ in range(length):
        k = rng.random()
        r = rng.choice(schema.rops)
        s, t = rng.choice(idx[r.src]), rng.choice(idx[r.tgt])
        phrase_s, phrase_t = r.src_phrase, r.tgt_phrase
        if k < 0.42:
            hist.append(('relate', s, t, r.rel, phrase_s))
        elif k < 0.52:
            hist.append(('relate', t, s, r.rel, phrase_t))
        elif k < 0.72:
            hist.append(('unrelate', s, t, r.rel, phrase_s))
        elif k < 0.80:
            hist.append(('unrelate', t, s, r.rel, phrase_t))
        elif k < 0.84:
            hist.append((rng.choice(('relate', 'unrelate')), s, t, r.rel,
                         rng.choice(('bogus', phrase_t if phrase_t != phrase_s else 'x'))))
        elif k < 0.86:
            hist.append(('relate', s, t, 77, phrase_s))
        elif k < 0.88:
            hist.append((rng.choice(('relate', 'unrelate')), None, t, r.rel, phrase_s))
        elif k < 0.97:
            a, b = rng.randrange(len(pool)), rng.randrange(len(pool))
            hist.append(('relate', a, b, r.rel, rng.choice((phrase_s, phrase_t, ''))))
        elif k < 0.985:
            hist.append(('new', rng.choice(schema.kinds())))
        else:
            hist.append(('delete', rng.randrange(len(pool))))
    # calls the schema cannot decide (same-instance or reflexive without direction) are fine:
    return hist


def run(ctx):
    S = shapes()
    if ctx.params.get('replay'):
        case = ctx.params['replay']['case']
        schema = Schema.from_json(case['schema']) if case.get('schema') else dict(S)[case['shape']]
        pool = [tuple(p) for p in case['pool']]
        hist = [tuple(op) for op in case['history']]
        try:
            run_history(ctx, schema, pool, case['route'], hist, every=1)
            print('replay: no violation')
        except Mismatch as e:
            ctx.violation(e.key, e.what, case=case)
        return

    cap = 140000 if ctx.tier == 'quick' else 3000000
    total = 0
    for name, schema in S:
        pool = make_pool(schema, 2)
        ops = alphabet(schema, pool, invalid_calls=(not name.startswith('simple-') or name == 'simple-MC-1'))
        depth = 1
        while len(ops) ** (depth + 1) <= cap and depth < 7:
            depth += 1
        ctx.notes['%s' % name] = 'alphabet %d, exhaustive depth %d' % (len(ops), depth)
        # shard by the first two operations
        prefixes = list(itertools.product(range(len(ops)), repeat=min(2, depth)))
        count = 0
        if ctx.shard == 0:
            for op in ops:
                count += one(ctx, name, schema, pool, 'api', (op,))
        for p in ctx.chunk(prefixes):
            head = tuple(ops[i] for i in p)
            for L in range(len(head), depth + 1):
                for tail in itertools.product(ops, repeat=L - len(head)):
                    count += 1
                    # every 97th history through the loader-built metamodel
                    route = 'loader' if count % 97 == 0 else 'api'
                    one(ctx, name, schema, pool, route, head + tail)
        total += count
        ctx.set_exhaustive('shape ' + name, 'alphabet %d, depth <= %d' % (len(ops), depth), count)
        if ctx.shard == 0:
            ctx.sample(dict(shape=name, schema=schema.describe()['rops'],
                            history=[list(o) for o in (ops[0], ops[2], ops[-1], ops[0])]))

    n = ctx.share(240 if ctx.tier == 'quick' else 6000)
    rng = ctx.rng
    for i in range(n):
        name, schema = S[rng.randrange(len(S))]
        pool = make_pool(schema, rng.randint(3, 5))
        case = {}
        if i % 3 == 2:
            # a random schema: several associations of every shape over up to five classes (compound keys,
            # key chains, shared referential attributes, one-sided phrases, keyword-like names)
            from vf import sqlgen
            schema = sqlgen.random_schema(rng, hostile_names=(i % 4 < 2), max_classes=5)
            while not schema.rops:
                schema = sqlgen.random_schema(rng, hostile_names=(i % 4 < 2), max_classes=5)
            name = 'random-schema'
            pool = make_pool(schema, rng.randint(2, 4))
            case['schema'] = schema.to_json()
            ctx.hit('Schema.random')
            if len(schema.rops) >= 3:
                ctx.hit('Schema.random-three-or-more-associations')
        hist = random_history(rng, schema, pool, rng.randint(200, 600 if ctx.tier == 'quick' else 2000))
        route = 'loader' if i % 2 else 'api'
        case.update(shape=name, pool=pool, route=route, history=hist)
        try:
            nt = run_history(ctx, schema, pool, route, hist, every=16)
            ctx.case(('rnd', name, route, hist), nt)
            ctx.count('random_histories')
            ctx.count('random_calls', len(hist))
        except Mismatch as e:
            ctx.violation(e.key, e.what, case=case)

    # histories on the complete ooaofooa metamodel (about 320 classes, 650 associations as shipped in
    # bridgepoint/schema.py); the shadow follows a connected part of it read from the schema text
    from vf import realschema
    for i in range(ctx.share(32 if ctx.tier == 'quick' else 1600)):
        schema = realschema.sub_schema(rng, rng.randint(3, 7))
        if not schema.rops:
            continue
        pool = make_pool(schema, rng.randint(2, 3))
        hist = random_history(rng, schema, pool, rng.randint(100, 300 if ctx.tier == 'quick' else 800))
        case = dict(shape='ooaofooa-part', schema=schema.to_json(), pool=pool, route='ooaofooa', history=hist)
        try:
            nt = run_history(ctx, schema, pool, 'ooaofooa', hist, every=16)
            ctx.case(('real', tuple(r.describe() for r in schema.rops), hist), nt)
            ctx.hit('Schema.ooaofooa-part')
            if any(len(r.src_keys) > 1 for r in schema.rops):
                ctx.hit('Schema.ooaofooa-part-with-compound-key')
            ctx.count('random_histories')
            ctx.count('random_calls', len(hist))
        except Mismatch as e:
            ctx.violation(e.key, e.what, case=case)

    if ctx.shard == ctx.nshards - 1:
        # the repository's own tests as a workload: every relate / unrelate / delete they (and the prebuilder, the
        # interpreter, the model loaders they drive) perform is observed by the link monitors
        from vf import ambient
        ambient.report(ctx, ambient.run_suite(ctx, ('links',)), 'Ambient')


def one(ctx, name, schema, pool, route, hist):
    try:
        nt = run_history(ctx, schema, pool, route, hist)
        ctx.case_enum(nt)
    except OutOfDomain:
        ctx.count('histories_skipped_relate_of_deleted_instance')
    except Mismatch as e:
        ctx.violation(e.key, e.what,
                      case=dict(shape=name, pool=pool, route=route, history=[list(o) for o in hist]))
    return 1
