'''
C15 - Callable model elements behave as their OAL bodies specify.

A BridgePoint model with functions, an external entity with bridges, class-
and instance-based operations, a derived attribute, an enumeration and
constants is synthesised (vf.bpsynth), written as rows in random order,
loaded and built with bridgepoint; its symbols are called from Python and
from each other's bodies. Oracle: the reference evaluator of vf.oalsem
extended with calls (by-name binding, self, a fresh scope per activation,
value of the executed return, enumerators by modelled position, constants by
modelled value).
'''
from vf import bpsynth as bp
from vf import oalmodel as om
from vf import oalsem
from vf.oalsem import INT, STR, BOOL
from vf.xmodel import Schema, Rop, Shadow, Bound

SHARDS = {'quick': 16, 'thorough': 64}
TIMEOUT = {'quick': 1500, 'thorough': 7200}
MUST_HIT = ['Call.where-clause-callee-with-changing-value', 'Call.nothing-after-an-activation-that-returned-a-value', 'Call.same-named-operations-of-two-classes', 'Call.name-differs-in-case-only-function', 'Call.name-differs-in-case-only-external-entity', 'Call.python-function', 'Call.python-bridge', 'Call.python-class-operation',
            'Call.derived-attribute-early-bare-return', 'Scope.local-named-like-parameter', 'Call.argument-order-observable', 'Call.operand-order-observable', 'Call.loop-condition-with-effect-left-through-break', 'Call.earlier-component-rechecked', 'Call.builtin-external-entity', 'Call.legacy-keyword-bridge', 'Call.legacy-keyword-transform', 'Call.python-instance-operation', 'Call.derived-attribute', 'Call.derived-attribute-outside-state', 'Call.enumerator', 'Call.constant',
            'Call.nested', 'Call.recursive', 'Call.return-inside-while-body', 'Call.return-inside-for-each-body', 'Call.bare-return', 'Call.no-return', 'Call.in-where-clause',
            'Call.in-loop-condition', 'Scope.caller-variable-kept', 'State.compared']
MUST_REACH = ['bridgepoint/ooaofooa.py:mk_function', 'bridgepoint/ooaofooa.py:mk_bridge',
              'bridgepoint/ooaofooa.py:mk_external_entity', 'bridgepoint/ooaofooa.py:mk_operation',
              'bridgepoint/ooaofooa.py:mk_derived_attribute', 'bridgepoint/ooaofooa.py:mk_enum',
              'bridgepoint/ooaofooa.py:mk_constant', 'bridgepoint/ooaofooa.py:Domain.find_symbol',
              'bridgepoint/interpret.py:run_operation', 'bridgepoint/interpret.py:run_derived_attribute',
              'bridgepoint/interpret.py:ActionWalker.accept_FunctionInvocationNode',
              'bridgepoint/interpret.py:ActionWalker.accept_InstanceInvocationNode',
              'bridgepoint/interpret.py:ActionWalker.accept_ImplicitInvocationNode',
              'bridgepoint/interpret.py:ActionWalker.accept_EnumOrNamedConstantNode']
ANCHORS = MUST_REACH
MIN_NONTRIVIAL = {'quick': 300, 'thorough': 300}
RULE = ('models with 3-6 functions, an external entity with 2 bridges, a class with a class-based and an '
        'instance-based operation and a derived attribute, an enumeration of 3-5 enumerators and a constant '
        'group; bodies generated over integer/string/boolean parameters with calls to lower-ranked elements '
        'of every kind (in expressions, statements, where clauses and loop conditions), bounded recursion '
        'on a decreasing integer parameter and mutual recursion, every return form (value, bare, none), '
        'the same local variable names in every body; a second external entity with a bridge, and a function, carrying the '
        'name of a bridge of the first; rows written in random order (enumerator and '
        'parameter chains by their succession attributes only); every element invoked from Python with '
        'random arguments. Non-trivial = the invocation reaches at least one nested call; distinct by '
        'hash of (model rows, invocation).')
ASSUMPTIONS = ['reference call semantics in vf/checks/c15.py + vf/oalsem.py; division and modulo are not generated',
               'constants are read by their bare name (the spelling the interpreter resolves)',
               'elements called from loop conditions and right operands of and / or have no effects on the model; an element called from a where clause has no effect on the class that is selected from']
LEVEL_TEXT = ('Random exploration with a reference evaluator: generated call graphs over all kinds of callable '
              'model elements, invoked from Python and OAL, results and final instance population compared '
              'with an independent evaluation; held on all explored invocations.')
LEVEL_NOTE = 'Trusted: vf/oalsem.py evaluator with the call extension of vf/checks/c15.py; vf/bpsynth.py row synthesis.'
TECHNIQUE = 'runtime monitoring: reference-model oracle (independent evaluator with call semantics) compared with Python-level and OAL-level invocation results'

TYNAME = {INT: 'integer', STR: 'string', BOOL: 'boolean', None: 'void', 'real': 'real'}


class Mismatch(Exception):
    def __init__(self, key, what):
        Exception.__init__(self, what)
        self.key = key
        self.what = what


MAYBE = [0]
WHERE_TICK = [0]


class Elem(object):
    '''a callable model element'''

    def __init__(self, kind, name, ret, params, owner=None):
        self.kind = kind          # 'f' function | 'b' bridge | 'cop' | 'iop'
        self.name = name
        self.ret = ret            # INT / STR / BOOL / None
        self.params = params      # [(name, type)]
        self.owner = owner        # EE key letters or class key letters
        self.body = None          # list of statement nodes
        self.text = ''
        self.recursive = False
        self.maybe = False        # the valued return sits behind a condition on param.n: some activations return nothing
        self.pure = True          # no instance creation / attribute write, calls only pure elements

    @property
    def uid(self):
        '''elements are told apart by kind, owner and name (names alone may coincide)'''
        return '%s/%s/%s' % (self.kind if self.kind != 'cop' and self.kind != 'iop' else 'op', self.owner, self.name)


def call_node(e, args, target=None):
    '''expression node invoking element e with argument nodes {name: node}'''
    items = [(n, args[n]) for n, _ in e.params]
    sem_items = [(n, x.sem) for n, x in items]
    if e.kind == 'f':
        node = om.fcall(e.name, items)
    elif e.kind in ('b', 'cop'):
        node = om.implicit_call(e.owner, e.name, items)
    else:
        node = om.icall(target, e.name, items)
    return oalsem.S(node, ('call', e.kind, e.uid, sem_items, target.sem if target is not None else None))


LEGACY = {}
SHADOWED = [0]
ARG_ORDER = [0]
OPERAND_ORDER = [0]
BREAK_WITH_EFFECT = [0]
EARLY = {}
PREVIOUS = []
DER_FORMS = {}


class ModelGen(object):
    def __init__(self, rng, impure_logic=False, case='lower'):
        self.rng = rng
        self.impure_logic = impure_logic      # effects allowed in the right operand of and / or
        self.case = case                      # keyword case of the rendered bodies
        import random
        self.render_rng = random.Random(7)    # rendering never draws from the generator's stream
        self.pure_only = 0
        self.elems = []
        self.enum = ('Color', ['Red', 'Green', 'Blue', 'Cyan', 'Magenta'][:rng.randint(3, 5)])
        rng.shuffle(self.enum[1])
        self.consts = [('C_INT', INT, rng.choice((0, 3, 42))), ('C_STR', STR, rng.choice(('hello', 'x'))),
                       ('C_BOOL', BOOL, rng.random() < 0.5),
                       ('C_REAL', 'real', rng.choice((2.5, 0.125, 10.0, -3.75)))]   # only read from Python
        self.vcount = 0

    def make_elems(self):
        r = self.rng
        kinds = ['f'] * r.randint(3, 6) + ['b', 'b', 'cop', 'iop']
        r.shuffle(kinds)
        pure = Elem('f', 'pure_fn', INT, [('n', INT)])
        pure.body = [oalsem.return_(oalsem.bin_('+', oalsem.param('n'), oalsem.lit(1)))]
        pure.text = om.render(om.body(pure.body), self.render_rng, case=self.case)
        self.elems.append(pure)
        # argument lists are evaluated from left to right: pair(a: <attribute read>, b: bump_all()) sees the
        # attribute as it was before bump_all changed it
        bump = Elem('f', 'bump_all', INT, [])
        bump.body = [oalsem.select_from('many', 'ks', 'K'),
                     oalsem.for_each('kk', 'ks', [oalsem.assign(oalsem.attr(oalsem.var('kk'), 'N'),
                                                                oalsem.bin_('+', oalsem.attr(oalsem.var('kk'), 'N'),
                                                                            oalsem.lit(1)))]),
                     oalsem.return_(oalsem.lit(1))]
        bump.text = om.render(om.body(bump.body), self.render_rng, case=self.case)
        bump.pure = False
        pair = Elem('f', 'pair', INT, [('a', INT), ('b', INT)])
        pair.body = [oalsem.return_(oalsem.bin_('+', oalsem.bin_('*', oalsem.param('a'), oalsem.lit(100)),
                                                oalsem.param('b')))]
        pair.text = om.render(om.body(pair.body), self.render_rng, case=self.case)
        self.elems.extend([bump, pair])
        # a function whose value depends on how often it was called (it counts in an attribute of the first K2 instance):
        # in a where clause it is evaluated once per candidate, and not at all over an empty population
        tick = Elem('f', 'tick_fn', INT, [])
        tick.body = [oalsem.select_from('any', 'o', 'K2'),
                     oalsem.if_(oalsem.un('not_empty', oalsem.var('o')),
                                [oalsem.assign(oalsem.attr(oalsem.var('o'), 'der'),
                                               oalsem.bin_('+', oalsem.attr(oalsem.var('o'), 'der'), oalsem.lit(1))),
                                 oalsem.return_(oalsem.attr(oalsem.var('o'), 'der'))]),
                     oalsem.return_(oalsem.lit(0))]
        tick.text = om.render(om.body(tick.body), self.render_rng, case=self.case)
        tick.pure = False
        self.elems.append(tick)
        if self.impure_logic:
            eff = Elem('f', 'effect_fn', BOOL, [])
            eff.body = [oalsem.create('k', 'K'), oalsem.return_(oalsem.lit(True))]
            eff.text = om.render(om.body(eff.body), self.render_rng, case=self.case)
            eff.pure = False
            self.elems.append(eff)
        for i, k in enumerate(kinds):
            ret = r.choice((INT, INT, STR, BOOL, None))
            params = []
            for pn, pt in (('n', INT), ('s', STR), ('b', BOOL)):
                if r.random() < (0.8 if pn == 'n' else 0.4):
                    params.append((pn, pt))
            owner = {'b': 'EX', 'cop': 'K', 'iop': 'K'}.get(k)
            self.elems.append(Elem(k, '%s%d' % ({'f': 'fn', 'b': 'brg', 'cop': 'cop', 'iop': 'iop'}[k], i),
                                   ret, params, owner))
        first_brg = [x for x in self.elems if x.kind == 'b']
        if first_brg:
            b0 = first_brg[0]
            twin = Elem('b', b0.name, r.choice((INT, STR)), [], 'EY')
            self.elems.insert(r.randint(1, len(self.elems)), twin)
            fn_twin = Elem('f', b0.name, r.choice((INT, BOOL)), [('n', INT)])
            self.elems.insert(r.randint(1, len(self.elems)), fn_twin)
            # ... and an external entity whose key letters differ from EX only in letter case
            if r.random() < 0.5:
                CASE_TWINS['external-entity'] = CASE_TWINS.get('external-entity', 0) + 1
                self.elems.insert(r.randint(1, len(self.elems)), Elem('b', b0.name, r.choice((INT, BOOL)), [], 'Ex'))
        fns = [x for x in self.elems if x.kind == 'f' and x.name.startswith('fn')]
        if fns and r.random() < 0.5:
            # names are case sensitive: Fn3 is another function than fn3
            CASE_TWINS['function'] = CASE_TWINS.get('function', 0) + 1
            f0 = r.choice(fns)
            self.elems.insert(r.randint(1, len(self.elems)),
                              Elem('f', f0.name.capitalize(), r.choice((INT, STR)), [('n', INT)]))
        # another class carries an instance operation of the same name as one of K's, with another body: which one
        # runs is a matter of the receiving instance
        self.twin = None
        iops = [x for x in self.elems if x.kind == 'iop']
        if iops:
            t = Elem('iop', iops[0].name, INT, [], 'K2')
            t.body = [oalsem.return_(oalsem.bin_('+', oalsem.attr(oalsem.self_(), 'der'), oalsem.lit(1000)))]
            t.text = om.render(om.body(t.body), self.render_rng, case=self.case)
            self.twin = t
        # callables that deliver a value in some activations and nothing in others (last in rank: no body calls them,
        # so no expression has to cope with nothing); they are invoked several times in a row from Python
        for k_, nm, ty, own in (('f', 'maybe_fn', INT, None), ('b', 'maybe_brg', STR, 'EX')):
            me = Elem(k_, nm, ty, [('n', INT)], own)
            me.maybe = True
            self.elems.append(me)
        for i, e in enumerate(self.elems):
            if e.body is None:
                e.body = self.body(e, i)
                e.text = om.render(om.body(e.body), self.render_rng, case=self.case) if e.body else ''
                e.pure = self.is_pure(e)
        # derived attribute of K: integer, computed from self.N and a call
        # the derived attribute calls a function without effects (it is read by the harness itself)
        pure = self.elems[0]
        expr = oalsem.bin_('+', oalsem.attr(oalsem.self_(), 'N'),
                           call_node(pure, {'n': oalsem.bin_('*', oalsem.attr(oalsem.self_(), 'N'), oalsem.lit(2))}))
        # ... and reads a plain attribute of another class that happens to carry the same name
        other = oalsem.attr(oalsem.var('o2'), 'der')
        if r.random() < 0.5:
            self.der_body = [oalsem.select_from('any', 'o2', 'K2'),
                             oalsem.if_(oalsem.un('not_empty', oalsem.var('o2')),
                                        [oalsem.assign(oalsem.attr(oalsem.self_(), 'der'), oalsem.bin_('+', expr, other))],
                                        [], [oalsem.assign(oalsem.attr(oalsem.self_(), 'der'), expr)])]
        else:
            # the same value, leaving the body early through a bare return after the assignment
            DER_FORMS['early-bare-return'] = DER_FORMS.get('early-bare-return', 0) + 1
            self.der_body = [oalsem.select_from('any', 'o2', 'K2'),
                             oalsem.if_(oalsem.un('not_empty', oalsem.var('o2')),
                                        [oalsem.assign(oalsem.attr(oalsem.self_(), 'der'), oalsem.bin_('+', expr, other)),
                                         oalsem.return_(None)], [], None),
                             oalsem.assign(oalsem.attr(oalsem.self_(), 'der'), expr)]
        self.der_text = om.render(om.body(self.der_body), self.render_rng, case=self.case)

    def before(self, rank):
        '''the elements a body of this rank may call'''
        return [x for x in self.elems[:rank] if not x.maybe]

    def twin_call(self, stmts, locals_):
        '''an instance of the other class is created and its same-named instance operation invoked'''
        v = self.fresh()
        if v in locals_ and locals_[v] != INT:
            return
        SAME_NAMED_OPS[0] += 1
        stmts.append(oalsem.create('k2', 'K2'))
        stmts.append(oalsem.assign(oalsem.attr(oalsem.var('k2'), 'der'), oalsem.lit(self.rng.randint(0, 9))))
        stmts.append(oalsem.assign(oalsem.var(v), call_node(self.twin, {}, target=oalsem.var('k2'))))
        locals_[v] = INT

    def is_pure(self, e):
        by_name = dict((x.uid, x) for x in self.elems + ([self.twin] if self.twin is not None else []))

        def walk(sem):
            if isinstance(sem, tuple) and sem and isinstance(sem[0], str):
                if sem[0] == 'create' or (sem[0] == 'assign' and sem[1][0] == 'attr'):
                    return False
                if sem[0] == 'call' and (sem[2] == e.uid or not by_name[sem[2]].pure):
                    return False
            if isinstance(sem, (tuple, list)):
                return all(walk(x) for x in sem)
            return True
        return all(walk(s.sem) for s in e.body)

    # -- expressions -----------------------------------------------------------
    def fresh(self):
        self.vcount += 1
        return 'v%d' % (self.vcount % 4 + 1)       # few names: callers and callees collide on purpose

    def args(self, callee, cur, rank, depth, fixed=False, locals_=None):
        out = {}
        for pn, pt in callee.params:
            out[pn] = oalsem.lit({INT: 2, STR: 'a', BOOL: True}[pt]) if fixed else \
                self.expr(pt, cur, rank, depth - 1, locals_)
        return out

    def expr(self, ty, cur, rank, depth, locals_=None, selected=False):
        '''expression of type ty inside element cur (rank = index: only lower ranks are called)'''
        r = self.rng
        k = r.random()
        locals_ = locals_ or {}
        if depth > 0 and k < 0.35:
            cands = [e for e in self.before(rank) if e.ret == ty and e.kind != 'iop'
                     and (e.pure or not self.pure_only)]
            if cands:
                c = r.choice(cands)
                return call_node(c, self.args(c, cur, rank, depth, locals_=locals_))
        if k < 0.5 and cur is not None:
            ps = [pn for pn, pt in cur.params if pt == ty]
            if ps:
                return oalsem.param(r.choice(ps))
        if k < 0.6:
            vs = [n for n, t in locals_.items() if t == ty]
            if vs:
                return oalsem.var(r.choice(vs))
        if k < 0.68 and ty == INT:
            name = r.choice(self.enum[1])
            return oalsem.S(om.enum(self.enum[0], name), ('enum', self.enum[1].index(name)))
        if k < 0.76:
            cs = [c for c in self.consts if c[1] == ty]
            if cs:
                return oalsem.var(r.choice(cs)[0])
        if selected and ty == INT and k < 0.9:
            return oalsem.attr(oalsem.selected(), 'N')
        if cur is not None and cur.kind == 'iop' and k < 0.9:
            at = {INT: 'N', STR: 'S', BOOL: 'F'}[ty]
            return oalsem.attr(oalsem.self_(), at)
        if depth <= 0 or k < 0.85:
            return oalsem.lit({INT: r.choice((0, 1, 2, 3, 5)), STR: r.choice(('', 'a', 'bc')),
                               BOOL: r.random() < 0.5}[ty])
        if ty == INT:
            return oalsem.bin_(r.choice(('+', '-', '*')), self.expr(INT, cur, rank, depth - 1, locals_, selected),
                               self.expr(INT, cur, rank, depth - 1, locals_, selected))
        if ty == STR:
            return oalsem.bin_('+', self.expr(STR, cur, rank, depth - 1, locals_, selected),
                               self.expr(STR, cur, rank, depth - 1, locals_, selected))
        if r.random() < 0.5:
            return oalsem.bin_(r.choice(('<', '<=', '==', '!=', '>')),
                               self.expr(INT, cur, rank, depth - 1, locals_, selected),
                               self.expr(INT, cur, rank, depth - 1, locals_, selected))
        # whether and / or evaluate their right operand when the left one decides is not a language rule
        # this check relies on: the right operand has no effects (unless asked for: C08 compares variants)
        left = self.expr(BOOL, cur, rank, depth - 1, locals_, selected)
        if not self.impure_logic:
            self.pure_only += 1
        try:
            right = self.expr(BOOL, cur, rank, depth - 1, locals_, selected)
        finally:
            if not self.impure_logic:
                self.pure_only -= 1
        return oalsem.bin_(r.choice(('and', 'or')), left, right)

    def body(self, e, rank):
        r = self.rng
        stmts = []
        locals_ = {}
        has_n = any(pn == 'n' for pn, _ in e.params)
        default = {INT: oalsem.lit(1), STR: oalsem.lit('z'), BOOL: oalsem.lit(True)}
        # bounded recursion on the decreasing integer parameter (self or mutual)
        if has_n and e.ret is not None and e.kind != 'iop' and not e.maybe and r.random() < 0.5:
            e.recursive = True
            guard = oalsem.if_(oalsem.bin_('<=', oalsem.param('n'), oalsem.lit(0)),
                               [oalsem.return_(self.expr(e.ret, e, rank, 1, locals_))])
            stmts.append(guard)
            partner = e
            mutual = [x for x in self.before(rank) if x.recursive and x.ret == e.ret and x.kind != 'iop'
                      and any(pn == 'n' for pn, _ in x.params)]
            if mutual and r.random() < 0.4:
                partner = r.choice(mutual)
            args = {}
            for pn, pt in partner.params:
                args[pn] = oalsem.bin_('-', oalsem.param('n'), oalsem.lit(1)) if pn == 'n' else \
                    self.expr(pt, e, rank, 1, locals_)
            rec = call_node(partner, args)
            v = self.fresh()
            stmts.append(oalsem.assign(oalsem.var(v), rec))
            locals_[v] = e.ret
        if self.impure_logic and r.random() < 0.6:
            # a deciding left operand and a right operand with an effect
            eff = [x for x in self.before(rank) if x.name == 'effect_fn']
            if eff:
                op = r.choice(('and', 'or'))
                left = oalsem.lit(op == 'or') if r.random() < 0.7 else self.expr(BOOL, e, rank, 1, locals_)
                v = self.fresh()
                if v not in locals_ or locals_[v] == BOOL:
                    stmts.append(oalsem.assign(oalsem.var(v), oalsem.bin_(op, left, call_node(eff[0], {}))))
                    locals_[v] = BOOL
        # a local variable that carries the name of a parameter is another thing than the parameter
        for pn, pt in e.params:
            if r.random() < 0.3:
                SHADOWED[0] += 1
                stmts.append(oalsem.assign(oalsem.var(pn), self.expr(pt, e, rank, 1, locals_)))
                locals_[pn] = pt
        if e.kind == 'iop' and r.random() < 0.6:
            bump = [x for x in self.before(rank) if x.name == 'bump_all']
            pair = [x for x in self.before(rank) if x.name == 'pair']
            if bump and pair:
                ARG_ORDER[0] += 1
                v = self.fresh()
                if v not in locals_ or locals_[v] == INT:
                    stmts.append(oalsem.assign(oalsem.var(v), call_node(pair[0], {
                        'a': oalsem.attr(oalsem.self_(), 'N'), 'b': call_node(bump[0], {})})))
                    locals_[v] = INT
        if r.random() < 0.25:
            # a loop condition with an effect, and a loop that is left through break: the condition is evaluated once
            # per iteration that starts, and not again after the break
            bump = [x for x in self.before(rank) if x.name == 'bump_all']
            if bump:
                w = 'w%d' % rank
                stmts.append(oalsem.assign(oalsem.var(w), oalsem.lit(0)))
                cond = oalsem.bin_('and', oalsem.bin_('<', oalsem.var(w), oalsem.lit(r.randint(2, 4))),
                                   oalsem.bin_('>', call_node(bump[0], {}), oalsem.lit(0)))
                stmts.append(oalsem.while_(cond, [
                    oalsem.assign(oalsem.var(w), oalsem.bin_('+', oalsem.var(w), oalsem.lit(1))),
                    oalsem.if_(oalsem.bin_('==', oalsem.var(w), oalsem.lit(r.randint(1, 3))), [oalsem.break_()])]))
                locals_[w] = INT
                BREAK_WITH_EFFECT[0] += 1
        if e.kind == 'iop' and r.random() < 0.4:
            # the operands of an operator are evaluated from left to right as well: self.N <op> bump_all() reads the
            # attribute as it was before bump_all changed it
            bump = [x for x in self.before(rank) if x.name == 'bump_all']
            if bump:
                v = self.fresh()
                if v not in locals_ or locals_[v] == INT:
                    OPERAND_ORDER[0] += 1
                    left = oalsem.attr(oalsem.self_(), 'N')
                    right = call_node(bump[0], {})
                    if r.random() < 0.5:
                        right = oalsem.bin_('*', right, oalsem.attr(oalsem.self_(), 'N'))
                    stmts.append(oalsem.assign(oalsem.var(v), oalsem.bin_(r.choice(('+', '-', '*')), left, right)))
                    locals_[v] = INT
        for _ in range(r.randint(0, 3)):
            k = r.random()
            if k < 0.5:
                ty = r.choice((INT, STR, BOOL))
                v = self.fresh()
                if v in locals_ and locals_[v] != ty:
                    continue
                stmts.append(oalsem.assign(oalsem.var(v), self.expr(ty, e, rank, 2, locals_)))
                locals_[v] = ty
            elif k < 0.65:
                # call as a statement
                cands = [x for x in self.before(rank) if x.kind != 'iop']
                if cands:
                    c = r.choice(cands)
                    node = call_node(c, self.args(c, e, rank, 1, locals_=locals_))
                    # the statement keywords of the old syntax: bridge EE::f(..), transform KL::op(..)
                    prefix = {'b': 'bridge', 'cop': 'transform'}.get(c.kind) if r.random() < 0.4 else None
                    if prefix:
                        node.alt_cls = ('BridgeInvocationNode', 'ClassInvocationNode')
                        LEGACY[prefix] = LEGACY.get(prefix, 0) + 1
                    stmts.append(oalsem.S(om.invoke(node, prefix), ('invoke', node.sem)))
            elif k < 0.8:
                # create an instance, set attributes, call an instance operation on it
                stmts.append(oalsem.create('k', 'K'))
                stmts.append(oalsem.assign(oalsem.attr(oalsem.var('k'), 'N'), self.expr(INT, e, rank, 1, locals_)))
                iops = [x for x in self.before(rank) if x.kind == 'iop']
                if iops:
                    c = r.choice(iops)
                    twin_first = r.random() < 0.5
                    if self.twin is not None and self.twin.name == c.name and twin_first:
                        self.twin_call(stmts, locals_)
                    node = call_node(c, self.args(c, e, rank, 1, locals_=locals_), target=oalsem.var('k'))
                    if c.ret is not None:
                        v = self.fresh()
                        if v not in locals_ or locals_[v] == c.ret:
                            tgt = oalsem.var(v)
                            prefix = 'transform' if r.random() < 0.4 else None
                            stmts.append(oalsem.S(om.assign(tgt, node, prefix=prefix), ('assign', tgt.sem, node.sem)))
                            locals_[v] = c.ret
                    else:
                        stmts.append(oalsem.S(om.invoke(node, 'transform' if r.random() < 0.4 else None),
                                              ('invoke', node.sem)))
                    if self.twin is not None and self.twin.name == c.name and not twin_first:
                        self.twin_call(stmts, locals_)
            elif k < 0.9:
                # a call inside a where clause
                cands = [x for x in self.before(rank) if x.ret == INT and x.kind != 'iop' and x.pure
                         and [p for p in x.params] == [('n', INT)]]
                tick = [x for x in self.before(rank) if x.name == 'tick_fn']
                if tick and r.random() < 0.4:
                    # ... whose value changes from one evaluation to the next (the selected class itself is not touched)
                    WHERE_TICK[0] += 1
                    where = oalsem.bin_('==', oalsem.attr(oalsem.selected(), 'N'), call_node(tick[0], {}))
                    stmts.append(oalsem.select_from(r.choice(('any', 'many')), 'sel%d' % rank, 'K', where))
                    v = self.fresh()
                    if v not in locals_ or locals_[v] == INT:
                        stmts.append(oalsem.assign(oalsem.var(v), oalsem.un('cardinality', oalsem.var('sel%d' % rank))))
                        locals_[v] = INT
                elif cands:
                    c = r.choice(cands)
                    where = oalsem.bin_(r.choice(('<', '>', '==')),
                                        call_node(c, {'n': oalsem.attr(oalsem.selected(), 'N')}),
                                        self.expr(INT, e, rank, 0, locals_))
                    stmts.append(oalsem.select_from(r.choice(('any', 'many')), 'sel%d' % rank, 'K', where))
            else:
                # a call inside a loop condition
                cands = [x for x in self.before(rank) if x.ret == INT and x.kind != 'iop' and x.pure
                         and [p for p in x.params] == [('n', INT)]]
                if cands:
                    c = r.choice(cands)
                    i = 'i%d' % rank
                    stmts.append(oalsem.assign(oalsem.var(i), oalsem.lit(0)))
                    cond = oalsem.bin_('and', oalsem.bin_('<', oalsem.var(i), oalsem.lit(r.randint(1, 3))),
                                       oalsem.bin_('<', call_node(c, {'n': oalsem.var(i)}), oalsem.lit(1000)))
                    stmts.append(oalsem.while_(cond, [oalsem.assign(oalsem.var(i),
                                                                    oalsem.bin_('+', oalsem.var(i), oalsem.lit(1)))]))
                    locals_[i] = INT
        # a return inside a loop body leaves the whole body there: nothing after the loop runs, and the value is
        # the one of that return, not of a later one
        k = r.random()
        if k < 0.3:
            j = 'j%d' % rank
            stmts.append(oalsem.assign(oalsem.var(j), oalsem.lit(0)))
            early = oalsem.return_(None if e.ret is None else self.expr(e.ret, e, rank, 1, locals_))
            stmts.append(oalsem.while_(
                oalsem.bin_('<', oalsem.var(j), oalsem.lit(r.randint(1, 3))),
                [oalsem.if_(oalsem.bin_('==', oalsem.var(j), oalsem.lit(r.randint(0, 2))), [early]),
                 oalsem.assign(oalsem.var(j), oalsem.bin_('+', oalsem.var(j), oalsem.lit(1)))]))
            locals_[j] = INT
            EARLY['while'] = EARLY.get('while', 0) + 1
            if e.ret is None:
                stmts.append(oalsem.create('k', 'K'))
        elif k < 0.5:
            ks = 'ks%d' % rank
            stmts.append(oalsem.select_from('many', ks, 'K'))
            early = oalsem.return_(None if e.ret is None else self.expr(e.ret, e, rank, 1, locals_))
            stmts.append(oalsem.for_each('kk', ks, [
                oalsem.if_(oalsem.bin_(r.choice(('>=', '<', '==')), oalsem.attr(oalsem.var('kk'), 'N'),
                                       oalsem.lit(r.choice((0, 1, 2, 5)))), [early])]))
            EARLY['for-each'] = EARLY.get('for-each', 0) + 1
            if e.ret is None:
                stmts.append(oalsem.create('k', 'K'))
        # return form
        if e.ret is None:
            k = r.random()
            if k < 0.4:
                stmts.append(oalsem.return_(None))
            elif k < 0.5:
                stmts.append(oalsem.if_(oalsem.lit(True), [oalsem.return_(None)]))
                stmts.append(oalsem.assign(oalsem.var('unreached'), oalsem.lit(1)))
        elif e.maybe:
            MAYBE[0] += 1
            stmts.append(oalsem.if_(oalsem.bin_('>', oalsem.param('n'), oalsem.lit(1)),
                                    [oalsem.return_(self.expr(e.ret, e, rank, 2, locals_))]))
            if r.random() < 0.5:
                stmts.append(oalsem.if_(oalsem.bin_('==', oalsem.param('n'), oalsem.lit(1)), [oalsem.return_(None)]))
        else:
            stmts.append(oalsem.return_(self.expr(e.ret, e, rank, 2, locals_)))
        return stmts

    # -- model -------------------------------------------------------------------
    def diagram(self):
        d = bp.Diagram()
        d.component = None
        d.enums = [(self.enum[0], list(self.enum[1]), 'pkg')]
        ops = []
        for e in self.elems:
            if e.kind in ('cop', 'iop'):
                ops.append(bp.Callable_(e.name, TYNAME[e.ret], [(pn, TYNAME[pt]) for pn, pt in e.params], e.text,
                                        instance_based=(e.kind == 'iop')))
        ops2 = []
        if getattr(self, 'twin', None) is not None:
            t = self.twin
            ops2.append(bp.Callable_(t.name, TYNAME[t.ret], [], t.text, instance_based=True))
        attrs = [bp.Attr('Id', 'unique_id'), bp.Attr('N', 'integer'), bp.Attr('S', 'string'),
                 bp.Attr('F', 'boolean'), bp.Attr('der', 'integer', derived=self.der_text)]
        d.classes = [bp.Cls('Klass', 'K', 1, attrs, [['Id']], ops),
                     bp.Cls('Other', 'K2', 2, [bp.Attr('Id', 'unique_id'), bp.Attr('der', 'integer')], [['Id']], ops2)]
        for e in self.elems:
            if e.kind == 'f':
                d.functions.append((bp.Callable_(e.name, TYNAME[e.ret], [(pn, TYNAME[pt]) for pn, pt in e.params],
                                                 e.text), 'pkg'))
        d.ees = []
        for owner, name in (('EX', 'External'), ('EY', 'Second'), ('Ex', 'Third')):
            brgs = [bp.Callable_(e.name, TYNAME[e.ret], [(pn, TYNAME[pt]) for pn, pt in e.params], e.text)
                    for e in self.elems if e.kind == 'b' and e.owner == owner]
            d.ees.append((name, owner, brgs, 'pkg'))
        items = []
        for name, ty, v in self.consts:
            items.append((name, TYNAME[ty], {True: 'true', False: 'false'}.get(v, str(v)) if ty == BOOL else str(v)))
        d.constants = [('Consts', items, 'pkg')]
        return d


CASE_TWINS = {}
SAME_NAMED_OPS = [0]


class CallRef(object):
    '''reference semantics of invocations on top of oalsem.Ref'''

    def __init__(self, gen, shadow, ids):
        self.gen = gen
        self.shadow = shadow
        self.ids = ids
        self.depth = 0
        self.max_depth = 0
        self.calls = 0

    def consts(self):
        return dict((n, v) for n, _, v in self.gen.consts)

    def invoke(self, elem, kwargs, target=None):
        self.depth += 1
        self.calls += 1
        self.max_depth = max(self.max_depth, self.depth)
        if self.depth > 12 or self.calls > 60:
            self.depth -= 1
            raise oalsem.RefError('call budget')
        ref = Ref15(self.shadow, self.ids[0], params=dict(kwargs), self_handle=target, funcs=self.dispatch)
        ref.owner = self
        ref.blocks = [dict(self.consts()), dict()]
        try:
            ret = ref.run([s.sem for s in elem.body])
        finally:
            self.ids[0] = ref.id_counter
            self.depth -= 1
        return ret

    def dispatch(self, kind, name, kwargs, caller, target):
        elem = [e for e in self.gen.elems + [x for x in (getattr(self.gen, 'twin', None),) if x is not None]
                if e.uid == name][0]
        # the callee allocates ids from the shared counter
        self.ids[0] = caller.id_counter
        ret = self.invoke(elem, kwargs, target)
        caller.id_counter = self.ids[0]
        return ret

    def derived(self, h):
        ref = Ref15(self.shadow, self.ids[0], params={}, self_handle=('inst', h), funcs=self.dispatch)
        ref.owner = self
        ref.blocks = [dict(self.consts()), dict()]
        ref.derived_attr = 'der'
        ref.run([s.sem for s in self.gen.der_body])
        self.ids[0] = ref.id_counter
        return ref.derived_value


class Ref15(oalsem.Ref):
    derived_attr = None
    derived_value = None
    owner = None

    def ev(self, e):
        if e[0] == 'enum':
            return e[1]
        if e[0] == 'attr' and e[2] == 'der':
            h = self.live(self.ev(e[1]))
            if self.shadow.kind[h] == 'K':
                if self.derived_attr is None:
                    return self.owner.derived(h)
                raise oalsem.RefError('derived attribute read inside its own body')
            return self.shadow.rows[h]['der']
        return oalsem.Ref.ev(self, e)

    def ex(self, s):
        if s[0] == 'assign' and s[1][0] == 'attr' and s[1][2] == self.derived_attr and s[1][1] == ('self',):
            self.derived_value = self.ev(s[2])
            return
        return oalsem.Ref.ex(self, s)


def run_case(ctx, rng):
    from bridgepoint import ooaofooa
    from vf.ctx import cpu_budget, BudgetExceeded
    gen = ModelGen(rng)
    gen.make_elems()
    d = gen.diagram()
    text = bp.build(d).rows.text(rng)             # rows in random order
    loader = ooaofooa.ModelLoader(load_globals=True)
    loader.input(text)
    comp = loader.build_component()
    sch = Schema([('K', [('Id', 'UNIQUE_ID'), ('N', 'INTEGER'), ('S', 'STRING'), ('F', 'BOOLEAN')]),
                  ('K2', [('Id', 'UNIQUE_ID'), ('der', 'INTEGER')])], [])
    bound = Bound(sch, comp)
    shadow = bound.shadow
    ids = [0]
    cr = CallRef(gen, shadow, ids)
    # a few pre-existing instances
    import xtuml
    comp.id_generator = xtuml.IntegerGenerator()
    for i in range(rng.randint(0, 3)):
        bound.new('K', N=rng.randint(0, 4), S=rng.choice(('', 'p')), F=rng.random() < 0.5)
        ids[0] += 1
    for i in range(rng.randint(0, 2)):
        bound.new('K2', der=rng.randint(1, 9))
        ids[0] += 1
    # the component of the previous case is still alive: building this one must not have changed what its
    # names stand for
    if PREVIOUS:
        ctx.hit('Call.earlier-component-rechecked')
        old_comp, old_enum, old_consts = PREVIOUS.pop()
        en0 = old_comp.find_symbol(old_enum[0])
        for i, n in enumerate(old_enum[1]):
            if getattr(en0, n) != i:
                raise Mismatch('enumerator/position', 'after another component was built, enumerator %s of the '
                               'earlier one reads %r; its position in its modelled order %r is %d'
                               % (n, getattr(en0, n), old_enum[1], i))
        for n, ty, v in old_consts:
            got = old_comp.find_symbol(n)
            if got != v or type(got) is not type(v):
                raise Mismatch('constant/value', 'after another component was built, constant %s of the earlier '
                               'one reads %r, modelled %r' % (n, got, v))
    PREVIOUS.append((comp, gen.enum, gen.consts))
    # constants and enumerators read from Python
    ctx.hit('Call.enumerator')
    en = comp.find_symbol(gen.enum[0])
    for i, n in enumerate(gen.enum[1]):
        if getattr(en, n) != i:
            raise Mismatch('enumerator/position', 'enumerator %s reads %r, its position in the modelled order %r '
                           'is %d' % (n, getattr(en, n), gen.enum[1], i))
    ctx.hit('Call.constant')
    for n, ty, v in gen.consts:
        got = comp.find_symbol(n)
        if got != v or type(got) is not type(v):
            raise Mismatch('constant/value', 'constant %s reads %r, modelled %r' % (n, got, v))
    # invoke every element from Python
    order_ = [(i, None) for i in range(len(gen.elems)) if not gen.elems[i].maybe]
    rng.shuffle(order_)
    for i in range(len(gen.elems)):
        if gen.elems[i].maybe:
            # several activations in a row: a value, nothing, a value, nothing through a bare return (or none)
            at = rng.randint(0, len(order_))
            order_[at:at] = [(i, n_) for n_ in rng.choice(((3, 0, 2, 1), (2, 1, 3, 0), (0, 3, 1, 2)))]
    for idx, forced_n in order_:
        e = gen.elems[idx]
        kwargs = {}
        for pn, pt in e.params:
            kwargs[pn] = {INT: rng.randint(0, 3), STR: rng.choice(('', 'q', 'rs')), BOOL: rng.random() < 0.5}[pt]
        if forced_n is not None:
            kwargs['n'] = forced_n
        target = None
        if e.kind == 'iop':
            live = [h for h in shadow.extent['K']]
            if not live:
                continue
            target = ('inst', rng.choice(live))
        cr.calls = 0
        cr.max_depth = 0
        before = oalsem.Ref(shadow, ids[0]).fork()
        try:
            exp = cr.invoke(e, kwargs, target)
        except oalsem.RefError:
            # outside the compared domain: restore the model state of the reference and skip
            shadow.extent, shadow.kind, shadow.rows, shadow.alive, shadow.pairs = (
                before.shadow.extent, before.shadow.kind, before.shadow.rows, before.shadow.alive,
                before.shadow.pairs)
            ids[0] = before.id_counter
            ctx.count('invocations_discarded_reference_error')
            # the library state would now diverge: stop this model here
            return
        desc = '%s %s(%s)' % (e.kind, e.name, ', '.join('%s=%r' % kv for kv in sorted(kwargs.items())))
        try:
            with cpu_budget(15):
                if e.kind == 'f':
                    ctx.hit('Call.python-function')
                    got = comp.find_symbol(e.name)(**kwargs)
                elif e.kind == 'b':
                    ctx.hit('Call.python-bridge')
                    got = getattr(comp.find_symbol(e.owner), e.name)(**kwargs)
                elif e.kind == 'cop':
                    ctx.hit('Call.python-class-operation')
                    got = getattr(comp.find_class('K'), e.name)(**kwargs)
                else:
                    ctx.hit('Call.python-instance-operation')
                    got = getattr(bound.inst[target[1]], e.name)(**kwargs)
        except BudgetExceeded as ex:
            raise Mismatch('invocation/non-termination', '%s: %s (the reference needed %d calls)\n%s'
                           % (desc, ex, cr.calls, '\n'.join('--- %s %s(%s)\n%s' % (x.kind, x.name, x.params, x.text)
                                                             for x in gen.elems)))
        except Exception as ex:
            import traceback
            tb = traceback.extract_tb(ex.__traceback__)
            fn = [f.name for f in tb if f.filename.startswith(ctx.root)]
            raise Mismatch('invocation/%s@%s' % (type(ex).__name__, fn[-1] if fn else '?'),
                           '%s raised %s: %s\n%s' % (desc, type(ex).__name__, ex, e.text))
        if got != exp or (isinstance(exp, bool) != isinstance(got, bool)):
            raise Mismatch('invocation/return-value', '%s returned %r, its body specifies %r\n%s'
                           % (desc, got, exp, e.text))
        if e.maybe and exp is None:
            ctx.hit('Call.nothing-after-an-activation-that-returned-a-value')
        if cr.max_depth > 1:
            ctx.hit('Call.nested')
        if e.recursive and kwargs.get('n', 0) > 0:
            ctx.hit('Call.recursive')
        if e.ret is None:
            ctx.hit('Call.bare-return' if any(s.sem == ('return', None) for s in e.body) else 'Call.no-return')
        if 'where' in e.text:
            ctx.hit('Call.in-where-clause')
        if 'while' in e.text:
            ctx.hit('Call.in-loop-condition')
        if cr.max_depth > 1 and any(s.sem[0] == 'assign' and s.sem[1][0] == 'var' for s in e.body):
            ctx.hit('Scope.caller-variable-kept')
        # final state
        ctx.hit('State.compared')
        from vf.checks.c04 import bind_new_instances
        try:
            bind_new_instances(bound, shadow)
        except Exception as ex:
            raise Mismatch('state/instances', '%s: %s' % (desc, ex))
        diffs = bound.compare()
        if diffs:
            raise Mismatch('state/' + diffs[0][0], '%s: %s\n%s' % (desc, diffs[0][1], e.text))
        # derived attribute: recomputed on every read
        for h in list(shadow.extent['K'])[:2]:
            cr.calls = 0
            try:
                want = cr.derived(h)
                shadow.rows[h]['N'] += 1
                want2 = cr.derived(h)
                shadow.rows[h]['N'] -= 1
            except oalsem.RefError:
                continue
            ctx.hit('Call.derived-attribute')
            got_d = bound.inst[h].der
            if got_d != want:
                raise Mismatch('derived-attribute/value', 'K.der reads %r, its body specifies %r (%s)'
                               % (got_d, want, gen.der_text))
            shadow.rows[h]['N'] += 1
            bound.inst[h].N += 1
            if bound.inst[h].der != want2:
                raise Mismatch('derived-attribute/not-recomputed', 'K.der not recomputed after N changed')
            # ... and after a change of state outside the instance that its body reads (the first K2
            # instance's attribute; the K2 population itself)
            k2 = list(shadow.extent['K2'])
            if k2:
                shadow.rows[k2[0]]['der'] += 5
                bound.inst[k2[0]].der += 5
                how = 'an attribute of another instance, read by the body, changed'
            else:
                inst2 = comp.new('K2', der=7)
                ids[0] += 1
                h2 = shadow.new('K2', {'Id': inst2.Id, 'der': 7})
                bound.inst[h2] = inst2
                bound.hid[id(inst2)] = h2
                how = 'the first instance of the class the body selects from was created'
            try:
                want3 = cr.derived(h)
            except oalsem.RefError:
                continue
            ctx.hit('Call.derived-attribute-outside-state')
            got3 = bound.inst[h].der
            if got3 != want3:
                raise Mismatch('derived-attribute/not-recomputed', 'K.der reads %r, its body specifies %r: not '
                               'recomputed after %s (%s)' % (got3, want3, how, gen.der_text))
        ctx.case((text, desc), cr.max_depth > 1, sample=dict(element=desc, body=e.text, returns=exp))
        ctx.count('invocations')


def builtin_entities(ctx, rng):
    '''
    External entities with the key letters TIM, LOG, PERSIST, NVS are served by bridgepoint.external_entities:
    their bridges are invoked from Python and from OAL with the modeled parameter names; a date put
    together by name reads back component by component.
    '''
    import contextlib
    import io
    from bridgepoint import ooaofooa
    parts = dict(year=rng.randint(1990, 2030), month=rng.randint(1, 12), day=rng.randint(1, 28),
                 hour=rng.randint(0, 23), minute=rng.randint(0, 59), second=rng.randint(0, 59))
    names = sorted(parts)
    rng.shuffle(names)
    args = ', '.join('%s: %d' % (n, parts[n]) for n in names)
    d = bp.Diagram()
    d.udts = [('date', 'inst<Mapping>', 'pkg')]
    getters = ['get_' + n for n in parts]
    d.ees = [('Time', 'TIM', [bp.Callable_('create_date', 'date', [(n, 'integer') for n in sorted(parts)], '')] +
              [bp.Callable_(g, 'integer', [('date', 'date')], 'return 0 - 1;') for g in getters], 'pkg'),
             ('Logging', 'LOG', [bp.Callable_('LogInfo', 'void', [('message', 'string')], ''),
                                 bp.Callable_('LogInteger', 'void', [('message', 'integer')], ''),
                                 bp.Callable_('LogReal', 'void', [('message', 'string'), ('r', 'real')], '')], 'pkg'),
             ('Persistence', 'PERSIST', [bp.Callable_('commit', 'integer', [], 'return 77;')], 'pkg'),
             ('Non Volatile', 'NVS', [bp.Callable_('version', 'integer', [('first', 'integer'), ('second', 'integer')],
                                                   'return 78;')], 'pkg')]
    for n in parts:
        d.functions.append((bp.Callable_('probe_' + n, 'integer', [],
                                         'd = TIM::create_date(%s); return TIM::get_%s(date: d);' % (args, n)), 'pkg'))
    d.functions.append((bp.Callable_('probe_log', 'integer', [('n', 'integer')],
                                     'LOG::LogInfo(message: "probe"); LOG::LogInteger(message: param.n); '
                                     'LOG::LogReal(r: 1.5, message: "r"); x = PERSIST::commit(); '
                                     'y = NVS::version(second: 2, first: 1); return param.n + 1;'), 'pkg'))
    loader = ooaofooa.ModelLoader(load_globals=True)
    loader.input(bp.build(d).rows.text(rng))
    comp = loader.build_component()
    out = io.StringIO()
    try:
        with contextlib.redirect_stdout(out):
            tim = comp.find_symbol('TIM')
            date = tim.create_date(**parts)
            for n, v in parts.items():
                ctx.hit('Call.builtin-external-entity')
                got = getattr(tim, 'get_' + n)(date=date)
                if got != v:
                    raise Mismatch('builtin-entity/by-name-binding', 'TIM.get_%s(TIM.create_date(%r)) is %r' % (n, parts, got))
                got = comp.find_symbol('probe_' + n)()
                if got != v:
                    raise Mismatch('builtin-entity/by-name-binding', 'OAL: TIM::create_date(%s) then TIM::get_%s gives %r'
                                   % (args, n, got))
            k = rng.randint(0, 9)
            if comp.find_symbol('probe_log')(n=k) != k + 1:
                raise Mismatch('builtin-entity/invocation', 'the body invoking LOG / PERSIST / NVS bridges did not '
                               'complete with its own return value')
    except Mismatch:
        raise
    except Exception as ex:
        raise Mismatch('builtin-entity/%s' % type(ex).__name__, 'invoking built-in external entity bridges by '
                       'their modeled parameter names raised %s: %s' % (type(ex).__name__, ex))
    ctx.case(('builtin', tuple(sorted(parts.items())), tuple(names)), True)


def run(ctx):
    rng = ctx.rng
    for _ in range(ctx.share(64 if ctx.tier == 'quick' else 1600)):
        try:
            builtin_entities(ctx, rng)
        except Mismatch as e:
            ctx.violation(e.key, e.what, case=dict(what=e.what))
    unending = 0
    for _ in range(ctx.share(480 if ctx.tier == 'quick' else 20000)):
        try:
            run_case(ctx, rng)
            ctx.count('models')
        except Mismatch as e:
            ctx.violation(e.key, e.what, case=dict(what=e.what))
            if e.key == 'invocation/non-termination':
                unending += 1
                if unending >= 5:
                    # every further invocation that does not end costs another budget; five reports are enough
                    ctx.count('shard_stopped_after_five_invocations_that_did_not_end')
                    break
    for k, v in LEGACY.items():
        ctx.hit('Call.legacy-keyword-' + k, v)
    for k, v in DER_FORMS.items():
        ctx.hit('Call.derived-attribute-' + k, v)
    for k, v in CASE_TWINS.items():
        ctx.hit('Call.name-differs-in-case-only-' + k, v)
    ctx.hit('Call.same-named-operations-of-two-classes', SAME_NAMED_OPS[0])
    ctx.hit('Call.argument-order-observable', ARG_ORDER[0])
    ctx.hit('Call.operand-order-observable', OPERAND_ORDER[0])
    ctx.hit('Call.loop-condition-with-effect-left-through-break', BREAK_WITH_EFFECT[0])
    ctx.hit('Scope.local-named-like-parameter', SHADOWED[0])
    for k, n in EARLY.items():
        ctx.hit('Call.return-inside-%s-body' % k, n)
    ctx.hit('Call.where-clause-callee-with-changing-value', WHERE_TICK[0])
