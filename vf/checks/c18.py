'''
C18 - One loader builds independent metamodels.

Non-interference by differential replay: an observation of every built
metamodel is taken before and after each mutation of another one; every build
is compared with the build of a fresh loader that received the same accepted
inputs; an identity sweep asserts that no mutable container the listed
mutations touch is shared between two builds.
'''
from vf import sqlgen

SHARDS = {'quick': 16, 'thorough': 64}
TIMEOUT = {'quick': 1200, 'thorough': 7200}
MUST_HIT = ['NonInterference.observe-others', 'FreshLoader.compare', 'IdentitySweep.pairs',
            'Mutation.new', 'Mutation.delete', 'Mutation.setattr', 'Mutation.relate', 'Mutation.unrelate',
            'Mutation.append_attribute', 'Mutation.insert_attribute', 'Mutation.delete_attribute',
            'Mutation.define_unique_identifier', 'Mutation.define_class', 'History.late-create-table', 'History.rejected-input-call', 'History.late-association', 'FreshLoader.behaviour-compared', 'History.filename_input', 'History.file_input',
            'History.file-of-unchanged-size-read-again',
            'Build.generator-integer', 'Build.generator-uuid', 'Build.generator-default']
MUST_REACH = ['xtuml/load.py:ModelLoader.build_metamodel', 'xtuml/load.py:ModelLoader.populate_classes',
              'xtuml/load.py:ModelLoader.populate_associations', 'xtuml/meta.py:MetaClass.append_attribute',
              'xtuml/meta.py:MetaClass.insert_attribute', 'xtuml/meta.py:MetaClass.delete_attribute',
              'xtuml/meta.py:MetaModel.define_unique_identifier']
ANCHORS = MUST_REACH
MIN_NONTRIVIAL = {'quick': 300, 'thorough': 300}
RULE = ('histories over one loader: 2-5 inputs (fragments of valid files written from random hostile '
        'schemas and populations, some classes without CREATE TABLE so that they are inferred from their rows), 2-4 builds placed anywhere between them, and 5-25 mutations of '
        'randomly chosen built metamodels (new, delete, setattr, relate, unrelate, append/insert/'
        'delete_attribute, define_unique_identifier, define_class); after every mutation all other '
        'metamodels are re-observed, after every build the result is compared with a fresh loader. '
        'Non-trivial = at least two metamodels exist while a mutation that changes its own model is '
        'applied; distinct by hash of the history.')
ASSUMPTIONS = ['the observation (classes, attribute lists, identifiers, associations, instance rows, link '
               'sets) is complete for the listed kinds of change',
               'only containers the listed mutations can touch are required to be unshared (the key lists '
               'of association statements are shared between builds but no listed mutation changes them)']
LEVEL_TEXT = ('Random exploration of input/build/mutation histories with a before/after observation of all '
              'untouched metamodels, a fresh-loader comparison for every build and an object-identity '
              'sweep; held on all explored histories.')
LEVEL_NOTE = 'Trusted: the observation function in vf/checks/c18.py.'
TECHNIQUE = 'runtime monitoring: non-interference by differential replay (before/after observation of every other metamodel, fresh-loader comparison) + object-identity sweep'

MISSING = '<missing>'


def observe(m):
    pos = {}
    classes, rows, idx = {}, {}, {}
    for K, mc in m.metaclasses.items():
        classes[K] = (mc.kind, tuple(mc.attributes), tuple(sorted(mc.referential_attributes)),
                      tuple(sorted(mc.identifying_attributes)))
        idx[K] = tuple(sorted((n, tuple(a)) for n, a in mc.indices.items()))
        lst = []
        for n, inst in enumerate(mc.storage):
            pos[id(inst)] = (K, n)
            vals = []
            for a, ty in mc.attributes:
                try:
                    vals.append(repr(getattr(inst, a)))
                except AttributeError:
                    vals.append(MISSING)
            lst.append(tuple(vals))
        rows[K] = tuple(lst)
    assocs = []
    for ass in m.associations:
        links = []
        for link in (ass.source_link, ass.target_link):
            links.append(tuple(sorted((pos.get(id(x), 'dead'), tuple(pos.get(id(y), 'dead') for y in ys))
                                      for x, ys in link.items() if len(ys))))
        assocs.append((ass.rel_id, ass.source_link.to_metaclass.kind, tuple(ass.source_keys),
                       ass.source_link.cardinality, ass.target_link.phrase,
                       ass.target_link.to_metaclass.kind, tuple(ass.target_keys),
                       ass.target_link.cardinality, ass.source_link.phrase, tuple(links)))
    return (classes, idx, rows, tuple(assocs))


def first_diff(a, b):
    names = ('classes', 'identifiers', 'instances', 'associations/links')
    for n, x, y in zip(names, a, b):
        if x != y:
            if isinstance(x, dict):
                for k in sorted(set(x) | set(y)):
                    if x.get(k) != y.get(k):
                        return '%s of %s: %r -> %r' % (n, k, x.get(k), y.get(k))
            return '%s: %r -> %r' % (n, str(x)[:300], str(y)[:300])
    return 'no difference'


def containers(m):
    '''id -> description of every mutable container the listed mutations touch'''
    out = {id(m.metaclasses): 'metaclasses dict', id(m.associations): 'associations list',
           id(m.id_generator): 'id generator'}
    for K, mc in m.metaclasses.items():
        out[id(mc)] = 'MetaClass %s' % K
        out[id(mc.clazz)] = 'class object %s' % K
        for name in ('attributes', 'storage', 'indices', 'links', 'referential_attributes',
                     'identifying_attributes'):
            out[id(getattr(mc, name))] = '%s.%s' % (K, name)
        for inst in mc.storage:
            out[id(inst)] = 'instance of %s' % K
            out[id(inst.__dict__)] = '__dict__ of an instance of %s' % K
    for ass in m.associations:
        out[id(ass)] = 'Association %s' % ass.rel_id
        for link in (ass.source_link, ass.target_link):
            out[id(link)] = 'Link of %s' % ass.rel_id
            for ys in link.values():
                out[id(ys)] = 'link set of %s' % ass.rel_id
    # sharing an immutable object (a tuple, a frozenset, a string) between builds is harmless
    return dict((i, d) for i, d in out.items() if i not in IMMUTABLE_IDS)


IMMUTABLE_IDS = set()


def note_immutables(m):
    for mc in m.metaclasses.values():
        for name in ('attributes', 'storage', 'indices', 'links', 'referential_attributes', 'identifying_attributes'):
            obj = getattr(mc, name)
            if isinstance(obj, (tuple, frozenset, str, bytes)):
                IMMUTABLE_IDS.add(id(obj))


def mutate(ctx, rng, m):
    '''apply one random mutation; returns a description, or None if it was not applicable'''
    import xtuml
    classes = list(m.metaclasses.values())
    if not classes:
        m.define_class('Fresh%d' % rng.randrange(1000), [('x', 'INTEGER')])
        ctx.hit('Mutation.define_class')
        return ('define_class',)
    mc = rng.choice(classes)
    k = rng.choice(('new', 'new', 'delete', 'setattr', 'setattr', 'relate', 'relate', 'unrelate',
                    'append_attribute', 'insert_attribute', 'delete_attribute',
                    'define_unique_identifier', 'define_class'))
    try:
        if k == 'new':
            m.new(mc.kind)
        elif k == 'delete':
            if not mc.storage:
                return None
            xtuml.delete(rng.choice(mc.storage))
        elif k == 'setattr':
            plain = [(a, ty) for a, ty in mc.attributes if a not in mc.referential_attributes
                     and ty.upper() in sqlgen.CORE]
            if not mc.storage or not plain:
                return None
            a, ty = rng.choice(plain)
            setattr(rng.choice(mc.storage), a, sqlgen.random_value(rng, ty))
        elif k in ('relate', 'unrelate'):
            if not m.associations:
                return None
            ass = rng.choice(m.associations)
            src, tgt = ass.source_link.to_metaclass, ass.target_link.to_metaclass
            if not src.storage or not tgt.storage:
                return None
            s, t = rng.choice(src.storage), rng.choice(tgt.storage)
            if k == 'relate':
                xtuml.relate(s, t, ass.rel_id, ass.target_link.phrase)
            else:
                linked = [(x, y) for x, ys in ass.target_link.items() for y in ys]
                if not linked:
                    return None
                s, t = rng.choice(linked)
                xtuml.unrelate(s, t, ass.rel_id, ass.target_link.phrase)
        elif k == 'append_attribute':
            mc.append_attribute('extra%d' % rng.randrange(100), rng.choice(sqlgen.CORE))
        elif k == 'insert_attribute':
            mc.insert_attribute(rng.randint(0, len(mc.attributes)), 'ins%d' % rng.randrange(100),
                                rng.choice(sqlgen.CORE))
        elif k == 'delete_attribute':
            if not mc.attributes:
                return None
            mc.delete_attribute(rng.choice(mc.attributes)[0])
        elif k == 'define_unique_identifier':
            if not mc.attributes:
                return None
            m.define_unique_identifier(mc.kind, 'I%d' % rng.randint(1, 9),
                                       *[a for a, _ in rng.sample(mc.attributes, rng.randint(1, min(2, len(mc.attributes))))])
        elif k == 'define_class':
            m.define_class('Fresh%d' % rng.randrange(10 ** 6), [('x', 'INTEGER'), ('y', 'STRING')])
    except (xtuml.MetaException, AttributeError, TypeError, ValueError, KeyError):
        # rejected (or the model's own earlier attribute surgery makes an instance
        # unprintable): still followed by the observation of all other metamodels
        return (k + '-raised', mc.kind)
    ctx.hit('Mutation.' + k)
    return (k, mc.kind)


def probe(ctx, seed, m):
    '''-> [(step, outcome, observation)] of a short deterministic script run on metamodel *m*'''
    import random
    import xtuml
    r = random.Random(seed)
    out = []
    for _ in range(6):
        k = r.random()
        classes = [mc for mc in m.metaclasses.values() if mc.storage]
        if k < 0.4 or not classes:
            desc = mutate(NoHits, r, m)
            out.append((desc, None, hash(repr(observe(m)))))
            continue
        mc = classes[r.randrange(len(classes))]
        inst = mc.storage[r.randrange(len(mc.storage))]
        if k < 0.7 and mc.referential_attributes:
            # a write to a referential attribute, under some spelling
            a = sorted(mc.referential_attributes)[r.randrange(len(mc.referential_attributes))]
            sp = r.choice((a, a.lower(), a.upper()))
            ty = dict((x.upper(), t) for x, t in mc.attributes).get(a.upper(), 'INTEGER')
            try:
                setattr(inst, sp, sqlgen.random_value(r, ty if ty.upper() in sqlgen.CORE else 'INTEGER'))
                res = 'accepted'
            except Exception as e:
                res = type(e).__name__
            out.append((('set-referential', mc.kind, sp), res, hash(repr(observe(m)))))
        else:
            # every attribute read under the declared, the lower-case and the upper-case spelling
            vals = []
            for a, _ in mc.attributes:
                for sp in (a, a.lower(), a.upper()):
                    try:
                        vals.append(repr(getattr(inst, sp)))
                    except Exception as e:
                        vals.append(type(e).__name__)
            out.append((('read-spellings', mc.kind), tuple(vals), None))
    return out


class NoHits(object):
    @staticmethod
    def hit(name, n=1):
        pass


STATS = {}
LAST_ROWS = []       # the complete insert statements of the last fragments() call


def fragments(rng):
    schema = sqlgen.random_schema(rng, hostile_names=rng.random() < 0.3, max_classes=4, max_attrs=4)
    pop, _ = sqlgen.resolved_population(rng, schema, max_inst=4)
    stmts = sqlgen.schema_statements(schema)
    rows = [t for _, _, t in sqlgen.insert_statements(schema, pop, rng, named=True)]
    # some classes come without CREATE TABLE: the loader infers them from their rows on every build
    used = set(r.src for r in schema.rops) | set(r.tgt for r in schema.rops) | set(u[0] for u in schema.uniques)
    late = []
    for kind, attrs in schema.classes:
        if kind not in used and attrs and pop.rows[kind] and rng.random() < 0.6:
            mine = [t for t in stmts if t.startswith('CREATE TABLE %s (' % kind)]
            stmts = [t for t in stmts if t not in mine]
            if rng.random() < 0.5:
                # ... or their CREATE TABLE arrives with a later input, after rows (and builds) that
                # had to do without it
                late.extend(mine)
                STATS['late-create-table'] = STATS.get('late-create-table', 0) + 1
    LAST_ROWS[:] = rows
    rng.shuffle(rows)
    if rng.random() < 0.3:
        # an association (or an identifier) arrives with a later input, without any CREATE TABLE: rows and builds
        # before it had to do without it
        moved = [t for t in stmts if t.startswith(('CREATE ROP', 'CREATE UNIQUE INDEX')) and rng.random() < 0.6]
        if moved:
            stmts = [t for t in stmts if t not in moved]
            late.extend(moved)
            STATS['late-association'] = STATS.get('late-association', 0) + 1
    # the schema goes first so that most builds succeed; the rows are spread over later inputs
    n = rng.randint(1, 4)
    parts = [list(stmts)] + [[] for _ in range(n)]
    for t in late:
        parts[rng.randint(1, n)].append(t)
    for r in rows:
        parts[rng.randint(0, n)].append(r)
    return ['\n'.join(p) + '\n' for p in parts]


SCRATCH = []


def feed(ctx, rng, loader, text):
    '''
    One input call: the text itself, an open file, or the name of a file. The file is always the same path, written
    anew for every call (a data file that is edited and read again), often padded with blanks to a whole number of
    512-byte blocks so that its size does not change with its content.
    '''
    k = rng.random()
    if k < 0.6:
        loader.input(text)
        return 'input'
    import atexit
    import os
    import shutil
    import tempfile
    if not SCRATCH:
        SCRATCH.append(tempfile.mkdtemp(prefix='pyxtuml-verif-c18-'))
        atexit.register(shutil.rmtree, SCRATCH[0], True)
    path = os.path.join(SCRATCH[0], 'data.sql')
    body = text
    if rng.random() < 0.6:
        size = len(body.encode('utf-8'))
        body += ' ' * (-size % 512)
        ctx.hit('History.file-of-unchanged-size-read-again')
    with open(path, 'w', encoding='utf-8', newline='') as f:
        f.write(body)
    if k < 0.85:
        loader.filename_input(path)
        ctx.hit('History.filename_input')
        return 'filename_input'
    with open(path, 'r', encoding='utf-8', newline='') as f:
        loader.file_input(f)
    ctx.hit('History.file_input')
    return 'file_input'


def run_history(ctx, rng):
    import xtuml
    loader = xtuml.ModelLoader()
    accepted = []
    models = []          # [metamodel, last observation]
    peeks = []           # the next id of each metamodel's generator
    plan = [('input', t) for t in fragments(rng)]
    if rng.random() < 0.4:
        # an input call that is rejected after one or more well-formed statements: nothing of it is accepted input
        good = list(LAST_ROWS)       # whole statements (a value may hold line breaks and quotes)
        head = '\n'.join(rng.sample(good, min(len(good), rng.randint(1, 2)))) if good else 'CREATE TABLE Zq (Id INTEGER);'
        bad = head + '\n' + rng.choice(('INSERT INTO ( ;', 'CREATE TABLE ;', '\x01', "INSERT INTO X VALUES ('unterminated);",
                                          'CREATE ROP REF_ID R1 FROM 1 A () TO ;', ') ;'))
        plan.insert(rng.randint(1, len(plan)), ('bad-input', bad))
    nbuilds = rng.randint(2, 4)
    for _ in range(nbuilds):
        plan.insert(rng.randint(1, len(plan)), ('build',))
    for _ in range(rng.randint(5, 25)):
        plan.insert(rng.randint(2, len(plan)), ('mutate',))
    log = []
    interesting = False
    for step in plan:
        if step[0] == 'input':
            how = feed(ctx, rng, loader, step[1])
            accepted.append(step[1])
            log.append((how, step[1][:60]))
        elif step[0] == 'bad-input':
            try:
                loader.input(step[1])
                raise AssertionError('harness: a text meant to be rejected was accepted: %r' % step[1])
            except xtuml.ParsingException:
                ctx.hit('History.rejected-input-call')
            log.append(('input (rejected)', step[1][:200]))
        elif step[0] == 'build':
            # the generator is given (every build its own) or left to the loader (which then has to give every
            # build its own as well)
            how = rng.choice(('integer', 'integer', 'uuid', 'default', 'default'))
            ctx.hit('Build.generator-' + how)
            try:
                if how == 'default':
                    m = loader.build_metamodel()
                else:
                    m = loader.build_metamodel(xtuml.IntegerGenerator() if how == 'integer' else xtuml.UUIDGenerator())
            except (xtuml.ParsingException, xtuml.MetaException):
                continue
            obs = observe(m)
            # fresh loader with the same accepted inputs
            ctx.hit('FreshLoader.compare')
            fresh = xtuml.ModelLoader()
            for t in accepted:
                fresh.input(t)
            ref = observe(fresh.build_metamodel(xtuml.IntegerGenerator()))
            if obs != ref:
                return log, ('later-build/differs-from-fresh-loader',
                             'build number %d differs from the build of a fresh loader with the same '
                             'inputs: %s' % (len(models) + 1, first_diff(ref, obs)))
            if rng.random() < 0.5:
                # ... and behaves like it: the same short script of changes, reads under other spellings and writes to
                # referential attributes, run on one more build of this loader and on one of the fresh loader
                ctx.hit('FreshLoader.behaviour-compared')
                seed = rng.getrandbits(32)
                a = probe(ctx, seed, loader.build_metamodel(xtuml.IntegerGenerator()))
                b = probe(ctx, seed, fresh.build_metamodel(xtuml.IntegerGenerator()))
                if a != b:
                    n = [i for i, (x, y) in enumerate(zip(a, b)) if x != y][0]
                    return log, ('later-build/behaves-unlike-fresh-loader',
                                 'build number %d: step %d of a probe script (%r) has another outcome than on the build '
                                 'of a fresh loader with the same inputs: %s / %s'
                                 % (len(models) + 1, n, a[n][0], str(a[n][1:])[:300], str(b[n][1:])[:300]))
            # identity sweep against every earlier build
            note_immutables(m)
            mine = containers(m)
            for other, _ in models:
                ctx.hit('IdentitySweep.pairs')
                theirs = containers(other)
                shared = set(mine) & set(theirs)
                if shared:
                    cat = mine[sorted(shared)[0]]
                    cat = cat.split('.')[-1] if '.' in cat else ' '.join(cat.split()[:-1]) or cat
                    return log, ('shared-object/%s' % cat.replace(' ', '-'),
                                 'two builds share %s' % ', '.join(sorted(set(mine[i] for i in shared))[:4]))
            models.append([m, obs])
            log.append(('build', len(models), how))
            # building one metamodel draws no id from the generator of another
            for i, (other, _) in enumerate(models[:-1]):
                if other.id_generator.peek() != peeks[i]:
                    return log, ('interference/build-advances-generator',
                                 'build number %d advanced the id generator of metamodel %d' % (len(models), i + 1))
            peeks.append(m.id_generator.peek())
        else:
            if not models:
                continue
            j = rng.randrange(len(models))
            desc = mutate(ctx, rng, models[j][0])
            if desc is None:
                continue
            log.append(('mutate', j) + desc)
            new_obs = observe(models[j][0])
            if new_obs != models[j][1] and len(models) > 1:
                interesting = True
            models[j][1] = new_obs
            peeks[j] = models[j][0].id_generator.peek()
            ctx.hit('NonInterference.observe-others', len(models) - 1)
            for i, (other, obs) in enumerate(models):
                if i == j:
                    continue
                now = observe(other)
                if now != obs:
                    return log, ('interference/%s' % desc[0],
                                 '%s on metamodel %d changed metamodel %d: %s'
                                 % (desc[0], j + 1, i + 1, first_diff(obs, now)))
                if other.id_generator.peek() != peeks[i]:
                    return log, ('interference/%s' % desc[0],
                                 '%s on metamodel %d advanced the id generator of metamodel %d'
                                 % (desc[0], j + 1, i + 1))
    return log, (None, interesting)


def run(ctx):
    rng = ctx.rng
    for _ in range(ctx.share(6400 if ctx.tier == 'quick' else 120000)):
        log, (key, what) = run_history(ctx, rng)
        if key:
            ctx.violation(key, what, case=dict(history=log))
        else:
            ctx.case(('h', tuple(map(str, log))), bool(what), sample=dict(history=log[:12]))
            ctx.count('histories')
    for k, v in STATS.items():
        ctx.hit('History.' + k, v)
