'''
C09 - Queries and navigations return exactly the matching instances in order.

QueryRef: every query / navigation issued against the real metamodel is
re-evaluated naively over the shadow relational model (extents in creation
order, ordered pair lists per association) and compared element by element.
'''
from vf.xmodel import Schema, Rop, Bound, Outcome, build_api, build_loader

SHARDS = {'quick': 16, 'thorough': 64}
TIMEOUT = {'quick': 1200, 'thorough': 7200}
MUST_HIT = ['QueryRef.state-loaded-from-a-population', 'QueryRef.navigate-loaded', 'QueryRef.filter-on-referential-loaded', 'QueryRef.loaded-permuted-compound-keys', 'Ambient.QueryRef.ambient-select', 'Ambient.QueryRef.ambient-select-non-empty', 'Ambient.QueryRef.ambient-navigation', 'Ambient.QueryRef.ambient-navigation-of-several-steps', 'Ambient.QueryRef.ambient-navigation-to-several', 'Ambient.Suite.tests-passed', 'EarlierObject.rechecked', 'QueryRef.select', 'QueryRef.navigate', 'QueryRef.subtype', 'QueryRef.two-hop',
            'QueryRef.order_by-with-ties', 'QueryRef.set-valued-start', 'QueryRef.filter-covers-identifier', 'QueryRef.first-last', 'QueryRef.query-repeated',
            'QueryRef.attribute-assigned-between-queries', 'QueryRef.random-schema']
MUST_REACH = ['xtuml/meta.py:apply_query_operators', 'xtuml/meta.py:WhereEqual.__call__',
              'xtuml/meta.py:OrderBy.__call__', 'xtuml/meta.py:MetaClass.select_one',
              'xtuml/meta.py:MetaClass.select_many', 'xtuml/meta.py:MetaClass.navigate',
              'xtuml/meta.py:MetaClass._find_assoc_links', 'xtuml/meta.py:NavChain.__call__',
              'xtuml/meta.py:NavOneChain.__call__', 'xtuml/meta.py:navigate_subtype',
              'xtuml/meta.py:NavChain.__getitem__']
ANCHORS = MUST_REACH + ['xtuml/meta.py:QuerySet.first']
MIN_NONTRIVIAL = {'quick': 3000, 'thorough': 3000}
RULE = ('states: three of four over a seven-class schema (1:M, reflexive with phrases, association class, reflexive '
        'association class, subtype/supertype) built through the API or the loader, populated by a '
        'random C02-style history (creation with small value domains so that ties and matches '
        'occur; every fourth state over a random schema of vf/sqlgen with up to five associations of every shape, compound '
        'keys, key chains and shared referential attributes - a query that would read a referential value two '
        'disagreeing partners define is skipped and counted; '
        'occur, relate, unrelate, delete), optionally serialized and loaded back; queries: '
        'select_many/one/any with up to three operators out of where_eq (1-3 attributes, mixed '
        'spellings, referential ones), dict filters, lambdas, order_by / reverse_order_by on 1-2 '
        'attributes; navigation chains of length 1-4 in [rel], [rel, phrase] and .nav() spelling '
        'from None, an instance, a QuerySet, a list with duplicates, a generator, with filters; '
        'navigate_subtype. Non-trivial = the expected answer is non-empty, or a filter removed '
        'something; distinct by hash of (state, query).'
        " Also: states loaded from whole random populations (compound keys with permuted values, keys of equal hash value), navigation and referential filters compared with the key join of the written rows; and (last shard) every selection / navigation chain the repository's own tests perform, answered again by the naive evaluation.")
ASSUMPTIONS = ['the naive evaluator in vf/checks/c09.py over vf/xmodel.Shadow is the specification',
               'orderings are requested only on non-referential attributes (an unlinked referential '
               'attribute reads None, which python cannot order against numbers)']
LEVEL_TEXT = ('Random exploration: queries and navigations of every documented form on randomly '
              'reached model states (API histories and loaded models), each compared with an '
              'independent relational evaluation; held on all explored (state, query) pairs.')
LEVEL_NOTE = 'Trusted: the naive evaluator and vf/xmodel.py Shadow; value domains are small on purpose.'
TECHNIQUE = 'runtime monitoring: reference-model oracle (naive relational evaluation) compared with every query/navigation result over random states'

UID = 'UNIQUE_ID'


def schema():
    return Schema(
        [('A', [('Id', UID), ('Name', 'STRING'), ('N', 'INTEGER'), ('F', 'BOOLEAN'), ('X', 'REAL')]),
         ('B', [('Id', UID), ('A_Id', UID), ('N', 'INTEGER'), ('S', 'STRING')]),
         ('P', [('Id', UID), ('Next_Id', UID), ('N', 'INTEGER')]),
         ('L', [('A_Id', UID), ('B_Id', UID), ('W', 'INTEGER')]),
         ('Sub1', [('Id', UID), ('N', 'INTEGER')]),
         ('Sub2', [('Id', UID), ('S', 'STRING')]),
         ('PL', [('one_Id', UID), ('other_Id', UID), ('N', 'INTEGER')])],
        [Rop(1, 'B', ['A_Id'], 'MC', '', 'A', ['Id'], '1C', ''),
         Rop(2, 'P', ['Next_Id'], '1C', 'precedes', 'P', ['Id'], '1C', 'succeeds'),
         Rop(3, 'L', ['A_Id'], 'MC', '', 'A', ['Id'], '1', ''),
         Rop(3, 'L', ['B_Id'], 'MC', '', 'B', ['Id'], '1', ''),
         Rop(4, 'Sub1', ['Id'], '1C', '', 'A', ['Id'], '1', ''),
         Rop(4, 'Sub2', ['Id'], '1C', '', 'A', ['Id'], '1', ''),
         Rop(5, 'PL', ['one_Id'], 'MC', 'one', 'P', ['Id'], '1', 'other'),
         Rop(5, 'PL', ['other_Id'], 'MC', 'other', 'P', ['Id'], '1', 'one')],
        # declared identifiers; the library records but does not enforce them, and the random populations
        # repeat the values of I2 / I3 freely: a filter that covers an identifier still returns every match
        [('A', 'I1', ['Id']), ('A', 'I2', ['Name', 'N']), ('B', 'I1', ['Id']), ('B', 'I2', ['N', 'S']),
         ('P', 'I1', ['Id']), ('P', 'I2', ['N']), ('L', 'I1', ['A_Id', 'B_Id']), ('L', 'I2', ['W']),
         ('Sub1', 'I1', ['Id']), ('Sub1', 'I2', ['N']), ('Sub2', 'I1', ['Id'])])


DOMAIN = {
    'STRING': ['', 'a', 'b', 'B', 'ab', "it's"],
    'INTEGER': [0, 1, 2, 3, -1],
    'BOOLEAN': [True, False],
    'REAL': [0.0, 1.5, -2.25],
}


def case_variant(rng, name):
    k = rng.random()
    if k < 0.6:
        return name
    if k < 0.75:
        return name.upper()
    if k < 0.9:
        return name.lower()
    return ''.join(c.upper() if rng.random() < 0.5 else c.lower() for c in name)


def populate(ctx, rng, sch, route):
    m = build_api(sch) if route == 'api' else build_loader(sch)
    b = Bound(sch, m)
    import xtuml
    handles = {}
    n_per = rng.randint(2, 6)
    for kind, attrs in sch.classes:
        ref = set(a.upper() for a in sch.referential(kind))
        handles[kind] = []
        for _ in range(rng.randint(1, n_per)):
            vals = {}
            for a, ty in attrs:
                if a.upper() in ref or ty == UID:
                    continue
                vals[a] = rng.choice(DOMAIN[ty])
            handles[kind].append(b.new(kind, **vals))
    sh = b.shadow
    for _ in range(rng.randint(5, 60)):
        r = rng.choice(sch.rops)
        s, t = rng.choice(handles[r.src]), rng.choice(handles[r.tgt])
        k = rng.random()
        if k < 0.8:
            if not (sh.alive[s] and sh.alive[t]):
                continue
            exp = sh.relate(s, t, r.rel, r.src_phrase)
            try:
                xtuml.relate(b.inst[s], b.inst[t], r.rel, r.src_phrase)
            except xtuml.RelateException:
                pass
        elif k < 0.92:
            sh.unrelate(s, t, r.rel, r.src_phrase)
            try:
                xtuml.unrelate(b.inst[s], b.inst[t], r.rel, r.src_phrase)
            except xtuml.UnrelateException:
                pass
        else:
            h = rng.choice((s, t))
            if sh.delete(h) == Outcome.OK:
                xtuml.delete(b.inst[h])
    return b, handles


def reload(b):
    '''serialize the metamodel, load it and bind the same shadow to the result'''
    import xtuml
    text = xtuml.serialize(b.m)
    l = xtuml.ModelLoader()
    l.input(text)
    m2 = l.build_metamodel(xtuml.IntegerGenerator())
    b2 = Bound(b.schema, m2)
    b2.shadow = b.shadow
    b2.ordered_links = False
    for K, ext in b.shadow.extent.items():
        storage = m2.find_metaclass(K).storage
        if len(storage) != len(ext):
            return None
        for h, inst in zip(ext, storage):
            b2.inst[h] = inst
            b2.hid[id(inst)] = h
    # dead handles keep their old (foreign) instances out of the picture
    return b2


# -- naive evaluation ---------------------------------------------------------

class Ambiguous(Exception):
    '''a referential attribute formalising two associations whose partners disagree: either value may be read'''


def value(sh, h, attr):
    vals = sh.read(h, attr)
    if len(vals) != 1:
        raise Ambiguous()
    return next(iter(vals))


def ref_ops(sh, handles, ops, stats):
    cur = list(handles)
    for op in ops:
        before = len(cur)
        if op[0] in ('eq', 'dict'):
            cur = [h for h in cur if all(value(sh, h, a) == v for a, v in op[1])]
        elif op[0] == 'lambda':
            _, a, cmp, v = op
            cur = [h for h in cur if compare(value(sh, h, a), cmp, v)]
        elif op[0] == 'order':
            _, attrs, rev = op
            keys = dict((id_, [value(sh, id_, a) for a in attrs]) for id_ in cur)
            if len(set(map(tuple, keys.values()))) < len(cur):
                stats['ties'] = True
            out = []
            for h in cur:       # stable insertion sort
                pos = len(out)
                while pos > 0 and (keys[out[pos - 1]] < keys[h] if rev
                                   else keys[out[pos - 1]] > keys[h]):
                    pos -= 1
                out.insert(pos, h)
            cur = out
        if len(cur) != before:
            stats['filtered'] = True
    return cur


def compare(a, cmp, b):
    if a is None:
        return cmp == '!='
    return {'<': a < b, '>': a > b, '==': a == b, '!=': a != b, '>=': a >= b}[cmp]


def lib_ops(ops):
    import xtuml
    out = []
    for op in ops:
        if op[0] == 'eq':
            out.append(xtuml.where_eq(**dict(op[1])))
        elif op[0] == 'dict':
            out.append(dict(op[1]))
        elif op[0] == 'lambda':
            _, a, cmp, v = op
            out.append(lambda sel, a=a, cmp=cmp, v=v: compare(getattr(sel, a), cmp, v))
        elif op[0] == 'order':
            _, attrs, rev = op
            out.append((xtuml.reverse_order_by if rev else xtuml.order_by)(*attrs))
    return out


STATS = {}


def gen_ops(rng, sch, sh, kind, maxn=3):
    attrs = sch.attrs(kind)
    ref = set(a.upper() for a in sch.referential(kind))
    ops = []
    for _ in range(rng.choice((0, 1, 1, 2, 2, 3)[:maxn + 3])):
        k = rng.random()
        if k < 0.45:
            n = rng.choice((1, 1, 2, 3))
            chosen = rng.sample(attrs, min(n, len(attrs)))
            idents = [u[2] for u in sch.uniques if u[0] == kind]
            if idents and rng.random() < 0.3:
                # exactly (or a superset of) the attributes of one declared identifier
                names = list(rng.choice(idents))
                chosen = [(a, ty) for a, ty in attrs if a in names]
                if rng.random() < 0.3:
                    chosen += [x for x in rng.sample(attrs, 1) if x not in chosen]
                STATS['filter-covers-identifier'] = STATS.get('filter-covers-identifier', 0) + 1
            items = []
            for a, ty in chosen:
                ext = sh.extent[kind.upper()]
                if ext and rng.random() < 0.7:
                    v = value(sh, rng.choice(ext), a)
                elif ty == UID:
                    v = rng.choice((None, 1, 2, 3, 5, 8))
                else:
                    v = rng.choice(DOMAIN[ty])
                items.append((case_variant(rng, a), v))
            ops.append((rng.choice(('eq', 'dict')), items))
        elif k < 0.65:
            nums = [a for a, ty in attrs if ty == 'INTEGER']
            if nums:
                ops.append(('lambda', case_variant(rng, rng.choice(nums)),
                            rng.choice(('<', '>', '==', '!=', '>=')), rng.choice(DOMAIN['INTEGER'])))
        else:
            plain = [a for a, ty in attrs if a.upper() not in ref]
            chosen = rng.sample(plain, min(rng.choice((1, 1, 2)), len(plain)))
            ops.append(('order', [case_variant(rng, a) for a in chosen], rng.random() < 0.5))
    return ops


def gen_chain(rng, sch, start_kind, length):
    '''random navigable chain of (kind, rel, phrase, two_hop) steps'''
    steps = []
    cur = start_kind
    for _ in range(length):
        options = []
        for r in sch.rops:
            if r.src == cur:
                options.append((r.tgt, r.rel, r.src_phrase, False))
            if r.tgt == cur:
                options.append((r.src, r.rel, r.tgt_phrase, False))
        # two hops through an association class
        for r1 in sch.rops:
            for r2 in sch.rops:
                if r1 is r2 or r1.rel != r2.rel or r1.src != r2.src:
                    continue
                if r1.tgt == cur and r1.tgt_phrase == r2.src_phrase and r1.src != cur:
                    if not any(o[0] == r2.tgt and o[1] == r1.rel and o[2] == r1.tgt_phrase
                               for o in options):
                        options.append((r2.tgt, r1.rel, r1.tgt_phrase, True))
        if not options:
            break
        step = rng.choice(options)
        steps.append(step)
        cur = step[0]
    return steps, cur


def run_queries(ctx, rng, b, handles, sch, nq, state_key):
    recent = []
    for _ in range(nq):
        try:
            one_query(ctx, rng, b, handles, sch, state_key, recent)
        except Ambiguous:
            ctx.count('queries_skipped_ambiguous_referential_value')


def one_query(ctx, rng, b, handles, sch, state_key, recent):
    import xtuml
    sh = b.shadow
    m = b.m
    for _ in range(1):
        k = rng.random()
        stats = {}
        if rng.random() < 0.1:
            # the model state moves on between the queries: a plain attribute of a live instance is assigned
            kind = rng.choice(sch.kinds())
            live = [h for h in handles[kind] if sh.alive[h]]
            ref = set(a.upper() for a in sch.referential(kind))
            plain = [(a, ty) for a, ty in sch.attrs(kind) if a.upper() not in ref and ty != UID]
            if live and plain:
                h = rng.choice(live)
                a, ty = rng.choice(plain)
                v = rng.choice(DOMAIN[ty])
                setattr(b.inst[h], case_variant(rng, a), v)
                sh.rows[h][a] = v
                ctx.hit('QueryRef.attribute-assigned-between-queries')
        if k < 0.4:
            kind = rng.choice(sch.kinds())
            ops = gen_ops(rng, sch, sh, kind)
            mode = rng.choice(('many', 'many', 'one', 'any'))
            if recent and rng.random() < 0.3:
                # the same query as a while ago, on the state as it is now
                kind, ops, mode = rng.choice(recent)
                ctx.hit('QueryRef.query-repeated')
            else:
                recent.append((kind, ops, mode))
                del recent[:-6]
            q = ('select', case_variant(rng, kind), mode, ops)
            exp = ref_ops(sh, sh.extent[kind.upper()], ops, stats)
            fn = {'many': m.select_many, 'one': m.select_one, 'any': m.select_any}[mode]
            try:
                got = fn(q[1], *lib_ops(ops))
            except Exception as e:
                ctx.violation('select/raised-%s' % type(e).__name__, '%r raised %r' % (q, e),
                              case=dict(query=q))
                continue
            ctx.hit('QueryRef.select')
        elif k < 0.93:
            kind = rng.choice(sch.kinds())
            live = [h for h in handles[kind] if sh.alive[h]]
            sk = rng.random()
            if sk < 0.08:
                start, hs = ('none',), []
            elif sk < 0.45 and live:
                hs = [rng.choice(live)]
                start = ('inst', hs[0])
            elif sk < 0.6:
                hs = list(sh.extent[kind.upper()])
                start = ('select_many', kind)
            else:
                hs = [rng.choice(live) for _ in range(rng.randint(0, 5))] if live else []
                start = (rng.choice(('queryset', 'list', 'generator', 'tuple')), hs)
            steps, end_kind = gen_chain(rng, sch, kind, rng.randint(1, 4))
            if not steps:
                continue
            ops = gen_ops(rng, sch, sh, end_kind, maxn=2)
            mode = rng.choice(('many', 'many', 'one', 'any'))
            style = rng.choice(('item', 'nav'))
            relstyle = rng.choice(('int', 'str'))
            q = ('navigate', start, steps, mode, style, relstyle, ops)
            cur = []
            for h in hs:
                if h not in cur:
                    cur.append(h)
            for (kd, rel, phrase, two) in steps:
                nxt = []
                for h in cur:
                    for x in sh.navigate(h, kd, rel, phrase) or []:
                        if x not in nxt:
                            nxt.append(x)
                cur = nxt
                if two:
                    ctx.hit('QueryRef.two-hop')
            exp = ref_ops(sh, cur, ops, stats)
            if start[0] in ('queryset', 'list', 'generator', 'tuple', 'select_many') and len(hs) > 1:
                ctx.hit('QueryRef.set-valued-start')
            try:
                if start[0] == 'none':
                    arg = None
                elif start[0] == 'inst':
                    arg = b.inst[start[1]]
                elif start[0] == 'select_many':
                    arg = m.select_many(kind)
                elif start[0] == 'queryset':
                    arg = xtuml.QuerySet(b.inst[h] for h in hs)
                elif start[0] == 'list':
                    arg = [b.inst[h] for h in hs]
                elif start[0] == 'tuple':
                    arg = tuple(b.inst[h] for h in hs)
                else:
                    arg = (b.inst[h] for h in hs)
                chain = {'many': xtuml.navigate_many, 'one': xtuml.navigate_one,
                         'any': xtuml.navigate_any}[mode](arg)
                for (kd, rel, phrase, two) in steps:
                    relarg = rel if relstyle == 'int' else 'R%d' % rel
                    if style == 'nav':
                        chain = chain.nav(kd, relarg, phrase) if phrase else chain.nav(kd, relarg)
                    elif phrase:
                        chain = getattr(chain, kd)[relarg, phrase]
                    else:
                        chain = getattr(chain, kd)[relarg]
                got = chain(*lib_ops(ops))
            except Exception as e:
                ctx.violation('navigate/raised-%s' % type(e).__name__, '%r raised %r' % (q, e),
                              case=dict(query=q))
                continue
            ctx.hit('QueryRef.navigate')
        else:
            if not getattr(sch, 'fixed', False):
                continue
            live = [h for h in handles['A'] if sh.alive[h]]
            if xtuml.navigate_subtype(None, 4) is not None:
                ctx.violation('subtype/from-nothing', 'navigate_subtype(None, 4) is not None', case=dict(query='none'))
            if not live:
                continue
            h = rng.choice(live)
            q = ('subtype', h, 4)
            mode = 'one'
            subs = (sh.navigate(h, 'Sub1', 4, '') or []) + (sh.navigate(h, 'Sub2', 4, '') or [])
            if len(subs) > 1:
                continue        # two subtypes at once: the "one related subtype" is not defined
            exp = subs
            got = xtuml.navigate_subtype(b.inst[h], rng.choice((4, 'R4')))
            ctx.hit('QueryRef.subtype')
        if stats.get('ties'):
            ctx.hit('QueryRef.order_by-with-ties')
        ordered = b.ordered_links or q[0] in ('select', 'subtype')
        if mode == 'many':
            ok = isinstance(got, xtuml.QuerySet)
            gl = [b.handle_of(x) for x in got] if ok else repr(got)
            raw = list(gl) if ok else None
            want = exp
            if not ordered and ok:
                # loaded model: link order unspecified, compare as duplicate-free sets
                if len(set(gl)) == len(gl):
                    gl, want = sorted(gl, key=repr), sorted(want, key=repr)
        elif not ordered:
            gl = (b.handle_of(got) in exp) if exp else b.handle_of(got)
            want = True if exp else None
        else:
            gl = b.handle_of(got)
            want = exp[0] if exp else None
        if mode == 'many' and ok:
            # the query set's own first / last agree with its iteration order
            ctx.hit('QueryRef.first-last')
            fl = [None if x is None else b.handle_of(x) for x in (got.first, got.last)]
            if fl != ([raw[0], raw[-1]] if raw else [None, None]):
                ctx.violation('%s/first-last' % q[0], '%r: first/last are %r, the result iterates as %r' % (q, fl, raw),
                              case=dict(query=q, state=state_key))
        if gl != want:
            ctx.violation('%s/%s-result' % (q[0], mode),
                          '%r gave %r, expected %r' % (q, gl, want),
                          case=dict(query=q, state=state_key))
        ctx.case((state_key, q), bool(exp) or bool(stats.get('filtered')),
                 sample=dict(query=q, expected=want))


def random_schema(rng, i):
    '''a schema of vf/sqlgen (several associations of every shape at once), types spelled in upper case'''
    from vf import sqlgen
    while True:
        s = sqlgen.random_schema(rng, hostile_names=(i % 8 == 3), max_classes=5)
        if s.rops:
            return Schema([(k, [(a, ty.upper()) for a, ty in at]) for k, at in s.classes], s.rops, s.uniques)


class Mismatch(Exception):
    def __init__(self, key, what):
        Exception.__init__(self, what)
        self.key = key
        self.what = what


def loaded_population_state(ctx, rng):
    '''
    A state reached by loading a whole population (random schema of vf/sqlgen: compound keys whose values are
    permutations of each other, keys of equal hash value, key chains, shared referential attributes): navigation from
    every instance and from the whole extent, in both directions, is the relational composition of the links that the
    key join of the written rows defines; the single-result forms give a member of it or nothing; an equality filter on
    the referential attributes selects the referring instances of that partner.
    '''
    import xtuml
    from vf import sqlgen
    from vf.checks import c03
    schema = sqlgen.random_schema(rng, hostile_names=rng.random() < 0.3, max_classes=4)
    if not schema.rops or c03.ambiguous(schema):
        return False
    pop, _ = sqlgen.resolved_population(rng, schema, max_inst=5)
    expected = sqlgen.join(schema, pop)
    stmts = sqlgen.schema_statements(schema) + [t for _, _, t in sqlgen.insert_statements(schema, pop, omit_unset=True)]
    loader = xtuml.ModelLoader()
    loader.input('\n'.join(stmts))
    m = loader.build_metamodel(xtuml.IntegerGenerator())
    ctx.hit('QueryRef.state-loaded-from-a-population')
    referential = set((r.src, a) for r in schema.rops for a in r.src_keys)
    for i, r in enumerate(schema.rops):
        srcs, tgts = list(m.select_many(r.src)), list(m.select_many(r.tgt))
        if len(srcs) != len(pop.rows[r.src]) or len(tgts) != len(pop.rows[r.tgt]):
            raise Mismatch('loaded/extent', 'class extents differ from the rows written')
        spos = dict((id(x), n) for n, x in enumerate(srcs))
        tpos = dict((id(x), n) for n, x in enumerate(tgts))
        for forward in (True, False):
            froms, tos, topos = (srcs, tgts, tpos) if forward else (tgts, srcs, spos)
            kind, phrase = (r.tgt, r.src_phrase) if forward else (r.src, r.tgt_phrase)
            union = []
            for n, inst in enumerate(froms):
                want = set(t for s_, t in expected[i] if s_ == n) if forward else set(s_ for s_, t in expected[i] if t == n)
                got = [topos[id(o)] for o in xtuml.navigate_many(inst).nav(kind, r.rel, phrase)()]
                if len(got) != len(set(got)) or set(got) != want:
                    raise Mismatch('loaded/navigate-many', '%s, row %d %s: navigation reaches rows %r, the key join of the rows '
                                   'written says %r' % (r.describe(), n, 'forward' if forward else 'back', sorted(got), sorted(want)))
                one = xtuml.navigate_any(inst).nav(kind, r.rel, phrase)()
                if (one is None) != (not want) or (one is not None and topos[id(one)] not in want):
                    raise Mismatch('loaded/navigate-any', '%s, row %d: the single-result form gives %r, the join %r'
                                   % (r.describe(), n, one, sorted(want)))
                union.extend(x for x in got if x not in union)
                ctx.hit('QueryRef.navigate-loaded')
            whole = [topos[id(o)] for o in xtuml.navigate_many(m.select_many(r.src if forward else r.tgt)).nav(kind, r.rel, phrase)()]
            if whole != union:
                raise Mismatch('loaded/navigate-from-set', '%s %s: from the whole extent %r, union of the per-instance results '
                               'in encounter order %r' % (r.describe(), 'forward' if forward else 'back', whole, union))
        # equality filter naming the referential attributes: the referring instances of one partner
        if len(set(s_ for s_, _ in expected[i])) == len(expected[i]) and not any((r.tgt, k) in referential for k in r.tgt_keys):
            shared = [a for a in r.src_keys if sum(1 for r2 in schema.rops if r2.src == r.src and a in r2.src_keys) > 1]
            if not shared:
                for ti in sorted(set(t for _, t in expected[i]))[:3]:
                    flt = dict((a, pop.rows[r.tgt][ti][k]) for a, k in zip(r.src_keys, r.tgt_keys))
                    got = sorted(spos[id(x)] for x in m.select_many(r.src, xtuml.where_eq(**flt))) \
                        if not any(a in ('self', 'kind') for a in flt) else None
                    want = sorted(s_ for s_, t in expected[i] if t == ti)
                    if got is not None and got != want:
                        raise Mismatch('loaded/filter-on-referential', '%s: where_eq(%r) selects rows %r, referring rows of '
                                       'that partner %r' % (r.describe(), flt, got, want))
                    ctx.hit('QueryRef.filter-on-referential-loaded')
    return any(expected.values())


def run(ctx):
    if ctx.shard == ctx.nshards - 1:
        # every selection and navigation the repository's own tests perform (prebuilder, text generator, interpreter,
        # component and schema builders on the ooaofooa schema), answered a second time by the naive evaluation
        from vf import ambient
        ambient.report(ctx, ambient.run_suite(ctx, ('queries',)), 'Ambient')
        return
    fixed = schema()
    fixed.fixed = True
    rng = ctx.rng
    for i in range(ctx.share(1500 if ctx.tier == 'quick' else 60000)):
        try:
            nt = loaded_population_state(ctx, rng)
            ctx.case(('loaded-population', ctx.shard, i), bool(nt))
        except Mismatch as e:
            ctx.violation(e.key, e.what, case=dict(part='loaded-population', shard=ctx.shard, n=i))
    from vf import sqlgen as _sg
    ctx.hit('QueryRef.loaded-permuted-compound-keys', _sg.PERMUTED_KEYS[0])
    nstates = ctx.share(3200 if ctx.tier == 'quick' else 64000)
    nq = 60 if ctx.tier == 'quick' else 120
    for i in range(nstates):
        route = 'loader' if i % 3 == 0 else 'api'
        sch = fixed
        if i % 4 == 3:
            sch = random_schema(rng, i)
            ctx.hit('QueryRef.random-schema')
        b, handles = populate(ctx, rng, sch, route)
        state_key = (ctx.shard, i)
        diffs = b.compare(queries=False)
        if diffs:
            ctx.violation('state/' + diffs[0][0], 'state not as modelled: %s' % diffs[0][1])
            continue
        if i % 4 == 1:
            # (always the fixed schema: its keys are ids, so the links survive the text)
            b2 = reload(b)
            if b2 is None or b2.compare(queries=False):
                ctx.violation('state/reloaded-differs',
                              'model differs after serialize+load: %r'
                              % (b2 and b2.compare(queries=False)[:2],))
                continue
            b = b2
            ctx.count('states_reloaded')
        ctx.count('states')
        run_queries(ctx, rng, b, handles, sch, nq, state_key)
        ctx.later('model-state', (lambda b=b: b.compare(queries=True)), 'model state (differences to its shadow)')
    for k, v in STATS.items():
        ctx.hit('QueryRef.' + k, v)
