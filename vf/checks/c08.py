'''
C08 - OAL keywords are case-insensitive in parsing, execution and prebuild.

Metamorphic: the lower-case spelling of a program is the reference; the same
program with every keyword in UPPER case, Capitalised and in three random
mixes must (i) parse to the same tree modulo the case of keyword-valued
fields, (ii) give the interpreter result and final state the reference
evaluator defines (C04's oracle), (iii) produce the same prebuilt instances
apart from the recorded source text.
'''
import random

from vf import oalmodel as om
from vf import oalsyn
from vf import pbgen
from vf.checks import c04, c05

SHARDS = {'quick': 16, 'thorough': 64}
TIMEOUT = {'quick': 1800, 'thorough': 7200}
MUST_HIT = ['Case.variable-named-like-a-keyword-fragment', 'Case.variant-in-random-layout', 'Case.invoke-variant', 'Case.parse-variant', 'Case.interpret-variant', 'Case.prebuild-variant', 'Case.select-many-upper',
            'Case.boolean-literal-variant', 'Case.word-operator-variant']
MUST_REACH = ['bridgepoint/oal.py:OALParser.t_ID', 'bridgepoint/interpret.py:ActionWalker.accept_SelectFromNode',
              'bridgepoint/interpret.py:ActionWalker.accept_SelectRelatedNode',
              'bridgepoint/interpret.py:ActionWalker.accept_BooleanNode',
              'bridgepoint/prebuild.py:ActionPrebuilder.accept_SelectFromNode',
              'bridgepoint/prebuild.py:ActionPrebuilder.act_sel',
              'bridgepoint/prebuild.py:ActionPrebuilder.accept_BooleanNode']
ANCHORS = MUST_REACH
MIN_NONTRIVIAL = {'quick': 300, 'thorough': 300}
RULE = ('the C07 (parse), C04 (interpret), C15 (invocations of callable elements, with effects allowed in the '
        'operands of and / or) and C05 (prebuild) program streams, each program written in lower '
        'case and in keyword-case variants (UPPER, Capitalised, random per-letter mixes: five for the parse and prebuild '
        'streams, three for the two executing streams) with '
        'identical layout. Non-trivial = the program contains a select, a boolean literal or a word operator; '
        'distinct by hash of (stream, lower-case text).')
ASSUMPTIONS = ['recorded source text = ACT_SMT.Label and the Action_Semantics_internal of the home; everything '
               'else of the prebuilt population (including generated ids, which are deterministic here) is compared']
LEVEL_TEXT = ('Random exploration (metamorphic): keyword-case variants of generated programs compared with their '
              'lower-case spelling at the parse tree, at the interpreter outcome (against the C04 reference) and '
              'at the prebuilt instance population; held on all explored programs.')
LEVEL_NOTE = 'Trusted: vf/oalmodel.py case policies and comparer; the C04 reference evaluator.'
TECHNIQUE = 'runtime monitoring: metamorphic oracle (keyword-case variants vs lower-case reference) at parser, interpreter and prebuild'

VARIANTS = ('upper', 'capital', 'random', 'random', 'random')


class Mismatch(Exception):
    def __init__(self, key, what):
        Exception.__init__(self, what)
        self.key = key
        self.what = what


def interesting(tree):
    for n in tree.walk():
        if n.cls.startswith('Select') or n.cls == 'BooleanNode':
            return True
        if n.cls in ('UnaryOperationNode', 'BinaryOperationNode') and n.fields['operator'].lower() in om.WORD_OPS:
            return True
    return False


def parse_variants(ctx, rng):
    from bridgepoint import oal
    g = oalsyn.Gen(rng)
    tree = g.program(depth=rng.choice((1, 2)))
    lower = om.render(tree, None, layout='canonical', case='lower', optional=True)
    for case in VARIANTS:
        if rng.random() < 0.5:
            text = om.render(tree, rng, layout='canonical', case=case, optional=True)
        else:
            # any layout (blanks, tabs, line breaks - also inside "end if" -, comments, optional words)
            text = om.render(tree, random.Random(rng.getrandbits(32)), layout='random', case=case, case_rng=rng)
            ctx.hit('Case.variant-in-random-layout')
        ctx.hit('Case.parse-variant')
        try:
            got = oal.parse(text)
        except oal.ParseException as e:
            raise Mismatch('parse/variant-rejected', '%s\n%s' % (e, text))
        probs = om.compare(tree, got)
        if probs:
            raise Mismatch('parse/other-tree', '%s at %s\n%s' % (probs[0][2], probs[0][1], text))
    return lower, interesting(tree)


def interpret_variants(ctx, rng):
    layout = rng.choice(('canonical', 'random'))
    state = rng.getstate()
    lower = None
    for case in ('lower',) + VARIANTS[:3]:
        rng.setstate(state)
        try:
            text = c04.run_case(ctx_proxy(ctx), rng, case_policy=case, layout=layout)
        except c04.Mismatch as e:
            raise Mismatch('interpret/%s' % e.key, 'keyword case %s: %s' % (case, e.what))
        if text is None:
            return None, False
        if case == 'lower':
            lower = text
        else:
            ctx.hit('Case.interpret-variant')
            up = text.upper()
            if 'SELECT MANY' in up and 'select many' not in text:
                ctx.hit('Case.select-many-upper')
            if any(w in text for w in ('TRUE', 'True', 'FALSE', 'False')):
                ctx.hit('Case.boolean-literal-variant')
            if any(w in text for w in (' AND ', ' OR ', 'NOT ', ' And ', 'EMPTY', 'Empty', 'CARDINALITY')):
                ctx.hit('Case.word-operator-variant')
    return lower, True


class ctx_proxy(object):
    '''the C04 runner records its own cases; here only its monitors are forwarded'''

    def __init__(self, ctx):
        self.ctx = ctx
        self.root = ctx.root

    def hit(self, name, n=1):
        pass

    def count(self, name, n=1):
        pass

    def case(self, *a, **k):
        pass


def invoke_variants(ctx, rng):
    '''
    Callable elements (C15's generator) whose and / or operands may have effects: every element is
    invoked from Python with the same arguments in every keyword-case variant of the model; returns
    and the final instance population must agree with the lower-case run (no reference involved).
    '''
    from bridgepoint import ooaofooa
    import xtuml
    from vf import bpsynth as bp
    from vf.checks import c15
    from vf.ctx import cpu_budget, BudgetExceeded
    import random
    arg_seed = rng.random()
    state = rng.getstate()
    ref = None
    lower_text = None
    for case in ('lower',) + VARIANTS[:3]:
        rng.setstate(state)
        gen = c15.ModelGen(rng, impure_logic=True, case=case)
        gen.make_elems()
        arg_rng = random.Random(arg_seed)        # the same arguments in every variant
        text = bp.build(gen.diagram()).rows.text()
        loader = ooaofooa.ModelLoader(load_globals=True)
        loader.input(text)
        comp = loader.build_component()
        comp.id_generator = xtuml.IntegerGenerator()
        k0 = comp.new('K', N=1, S='p', F=True)
        comp.new('K2', der=3)
        obs = []
        for e in gen.elems:
            kwargs = {}
            for pn, pt in e.params:
                kwargs[pn] = {c15.INT: arg_rng.randint(0, 2), c15.STR: arg_rng.choice(('', 'q')),
                              c15.BOOL: arg_rng.random() < 0.5}[pt]
            try:
                with cpu_budget(8):
                    if e.kind == 'f':
                        r_ = comp.find_symbol(e.name)(**kwargs)
                    elif e.kind == 'b':
                        r_ = getattr(comp.find_symbol(e.owner), e.name)(**kwargs)
                    elif e.kind == 'cop':
                        r_ = getattr(comp.find_class('K'), e.name)(**kwargs)
                    else:
                        r_ = getattr(k0, e.name)(**kwargs)
            except (BudgetExceeded, MemoryError, RecursionError):
                # no reference bounds these programs: one that recurses or grows a value without end runs
                # into the CPU budget, the worker's memory limit or the interpreter's stack - at a point
                # that depends on timing / allocation, so it decides nothing
                r_ = 'budget'
            except Exception as ex:
                r_ = 'raised %s' % type(ex).__name__
            if r_ == 'budget':
                # where the budget cuts the call tree depends on timing: this model decides nothing (and the
                # population is not observed either - the asynchronous cut may land inside a creation and
                # leave a half-initialised instance behind, which is the harness's doing, not the library's)
                ctx.count('invoke_models_discarded_cpu_budget')
                return None, False
            obs.append((e.name, repr(r_), len(comp.select_many('K')),
                        tuple((i.N, i.S, i.F) for i in comp.select_many('K'))))
        if case == 'lower':
            ref = obs
            lower_text = '\n'.join('-- %s\n%s' % (e.name, e.text) for e in gen.elems)
        else:
            ctx.hit('Case.invoke-variant')
            if obs != ref:
                d = [(a, b) for a, b in zip(ref, obs) if a != b][:1]
                raise Mismatch('invoke/variant-differs', 'keyword case %s: invocation %r gives %r, lower case gives %r\n%s'
                               % (case, d[0][1][0] if d else '?', d[0][1][1:3] if d else len(obs),
                                  d[0][0][1:3] if d else len(ref),
                                  '\n'.join('-- %s\n%s' % (e.name, e.text) for e in gen.elems)))
    return lower_text, True


def population(m):
    '''prebuilt instances as a sorted list of (class, attribute values) without recorded source text'''
    out = []
    for K, mc in m.metaclasses.items():
        if not (K.startswith('ACT_') or K.startswith('V_') or K.startswith('E_') or K == 'S_DIM'):
            continue
        for inst in mc.storage:
            vals = []
            for a, ty in mc.attributes:
                if a in ('Label',):
                    continue
                vals.append((a, getattr(inst, a)))
            out.append((K, tuple(vals)))
    return sorted(out, key=repr)


def prebuild_variants(ctx, rng, home):
    from bridgepoint import prebuild
    g = pbgen.Gen(rng, home, bare_constants=True)
    tree = g.program()
    ref = None
    lower = None
    layout = rng.choice(('canonical', 'random'))
    lseed = rng.getrandbits(32)
    for case in ('lower',) + VARIANTS:
        # the same layout for every variant (its generator starts from the same state): the texts differ in the
        # letter case of keywords and in nothing else, so that positions agree as well
        text = om.render(tree, random.Random(lseed), layout=layout, case=case, case_rng=rng,
                         **({} if layout == 'random' else dict(optional=True)))
        m = c05.fresh_model()
        inst = pbgen.home_instance(m, home)
        inst.Action_Semantics_internal = text
        inst.Suc_Pars = 1
        try:
            prebuild.prebuild_action(inst)
        except Exception as e:
            import traceback
            tb = traceback.extract_tb(e.__traceback__)
            fn = [f.name for f in tb if f.filename.startswith(ctx.root)]
            raise Mismatch('prebuild/%s@%s' % (type(e).__name__, fn[-1] if fn else '?'),
                           'keyword case %s: prebuild raised %s: %s\n%s' % (case, type(e).__name__, e, text))
        pop = population(m)
        if case == 'lower':
            ref, lower = pop, text
            continue
        ctx.hit('Case.prebuild-variant')
        if pop != ref:
            diff = [(a, b) for a, b in zip(ref, pop) if a != b][:1]
            what = 'instance counts differ (%d / %d)' % (len(ref), len(pop))
            key = 'prebuild/population'
            if diff:
                (k1, v1), (k2, v2) = diff[0]
                attrs = [(x[0], x[1], y[1]) for x, y in zip(v1, v2) if x != y]
                what = '%s: %r' % (k1, attrs)
                key = 'prebuild/%s.%s' % (k1, attrs[0][0] if attrs else '?')
            raise Mismatch(key, 'keyword case %s gives other prebuilt instances: %s\n%s' % (case, what, text))
    return lower, interesting(tree)


def run(ctx):
    rng = ctx.rng
    quick = ctx.tier == 'quick'
    for _ in range(ctx.share(1600 if quick else 60000)):
        try:
            lower, nt = parse_variants(ctx, rng)
            ctx.case(('parse', lower), nt, sample=dict(stream='parse', program=lower[:300]))
        except Mismatch as e:
            ctx.violation(e.key, e.what, case=dict(what=e.what))
    for _ in range(ctx.share(320 if quick else 20000)):
        try:
            lower, nt = interpret_variants(ctx, rng)
            if lower is not None:
                ctx.case(('interpret', lower), nt, sample=dict(stream='interpret', program=lower[:300]))
        except Mismatch as e:
            ctx.violation(e.key, e.what, case=dict(what=e.what))
    for _ in range(ctx.share(96 if quick else 8000)):
        try:
            lower, nt = invoke_variants(ctx, rng)
            if lower is not None:
                ctx.case(('invoke', lower), nt, sample=dict(stream='invoke', program=lower[:300]))
        except Mismatch as e:
            ctx.violation(e.key, e.what, case=dict(what=e.what))
    for i in range(ctx.share(240 if quick else 10000)):
        try:
            lower, nt = prebuild_variants(ctx, rng, pbgen.HOMES[i % len(pbgen.HOMES)])
            ctx.case(('prebuild', lower), nt, sample=dict(stream='prebuild', program=lower[:300]))
        except Mismatch as e:
            ctx.violation(e.key, e.what, case=dict(what=e.what))
    ctx.hit('Case.variable-named-like-a-keyword-fragment', pbgen.KEYWORD_FRAGMENT_NAMES[0])
