'''
C06 - Prebuilt instances form a well-formed, correctly typed population.

Monitors evaluated on the ooaofooa instances right after prebuild_action:
consistency counts before/after, subtype census over R603 / R801, the three
succession chains (R661, R816, R604) against source order, statement and value
positions against the renderer's record, variable -> declaring block, and the
data type of value instances against the generator's OAL typing.
'''
from vf import oalmodel as om
from vf import pbgen
from vf.checks import c05

SHARDS = {'quick': 16, 'thorough': 64}
TIMEOUT = {'quick': 1800, 'thorough': 7200}
MUST_HIT = ['Consistency.closed-population', 'Consistency.delta', 'Census.ACT_SMT', 'Census.V_VAL', 'Chain.statements', 'Chain.parameters',
            'Chain.navigation', 'Chain.event-data', 'Census.event-statement', 'Position.statement', 'Position.legacy-keyword-statement', 'Position.value', 'Scope.variable-block',
            'Typing.comparison', 'Typing.literal', 'Typing.variable', 'Typing.attribute', 'Typing.parameter',
            'Typing.selection', 'Typing.cardinality', 'Home.function', 'Home.bridge', 'Home.operation',
            'Home.derived']
MUST_REACH = ['bridgepoint/prebuild.py:ActionPrebuilder.act_smt', 'bridgepoint/prebuild.py:ActionPrebuilder.v_val',
              'bridgepoint/prebuild.py:ActionPrebuilder.v_var', 'bridgepoint/prebuild.py:ActionPrebuilder.v_int',
              'bridgepoint/prebuild.py:ActionPrebuilder.v_ins', 'bridgepoint/prebuild.py:ActionPrebuilder.v_trn',
              'bridgepoint/prebuild.py:ActionPrebuilder.accept_StatementListNode',
              'bridgepoint/prebuild.py:ActionPrebuilder.accept_NavigationListNode',
              'bridgepoint/prebuild.py:ActionPrebuilder.accept_ParameterListNode',
              'bridgepoint/prebuild.py:ActionPrebuilder.accept_BinaryOperationNode',
              'bridgepoint/prebuild.py:ActionPrebuilder.accept_UnaryOperationNode',
              'bridgepoint/prebuild.py:ActionPrebuilder.accept_AssignmentNode']
ANCHORS = MUST_REACH
MIN_NONTRIVIAL = {'quick': 300, 'thorough': 300}
RULE = ('the C05 program stream (same universe, four action homes) with event statements (generate / create event '
        'instance with 0-3 data items) added, because the R816 chain of event data is one of the anchored mechanisms; after prebuild every monitor below is '
        'evaluated on the created instances. Non-trivial = the program has a block with at least three '
        'statements, an invocation with two or more parameters or a navigation chain of two or more steps; '
        'distinct by hash of (home, text).')
ASSUMPTIONS = ['multiplicity/uniqueness counts are taken with xtuml.check_association_integrity / '
               'check_uniqueness_constraint (decided by C11) before and after the translation',
               'typing is checked only for the cases the statement names: comparisons and boolean operators, '
               'cardinality, literals, variable reads, attribute and parameter reads, instance selections',
               'positions: LineNumber / StartPosition / EndPosition = start line, start column, end column of '
               'the node (exact by C13)']
LEVEL_TEXT = ('Random exploration with invariant monitors over the prebuilt population of every generated '
              'program (consistency delta, subtype census, succession chains against source order, positions, '
              'variable scoping, value typing); held on all explored programs.')
LEVEL_NOTE = 'Trusted: vf/pbgen.py (types and positions recorded while generating), vf/checks/c06.py monitors.'
TECHNIQUE = 'runtime monitoring: structural invariants and reference typing/ordering evaluated on the prebuilt instance population'

Mismatch = c05.Mismatch
TYPE_NAME = {pbgen.INT: 'integer', pbgen.STR: 'string', pbgen.BOOL: 'boolean', pbgen.REAL: 'real',
             pbgen.ENUM: 'Color', pbgen.ENUM2: 'Mood', pbgen.EVENT: 'inst<Event>', pbgen.UID: 'unique_id', pbgen.FLAG: 'Flag_t', pbgen.COUNT: 'Count_t'}
STATEMENT_CLASSES = set(['AssignmentNode', 'InvocationStatementNode', 'ReturnNode', 'BreakNode', 'ContinueNode',
                         'ControlNode', 'CreateObjectNode', 'CreateObjectNoVariableNode', 'DeleteNode',
                         'RelateNode', 'RelateUsingNode', 'UnrelateNode', 'UnrelateUsingNode', 'SelectFromNode',
                         'SelectFromWhereNode', 'SelectRelatedNode', 'SelectRelatedWhereNode', 'IfNode',
                         'WhileNode', 'ForEachNode', 'GenerateInstanceEventNode', 'GenerateClassEventNode',
                         'GenerateCreatorEventNode', 'GeneratePreexistingNode', 'CreateInstanceEventNode',
                         'CreateClassEventNode', 'CreateCreatorEventNode'])
CONSTANT_NAMES = pbgen.UNIQUE_CONSTANT_NAMES
EXPRESSION_CLASSES = set(['IntegerNode', 'RealNode', 'StringNode', 'BooleanNode', 'VariableAccessNode',
                          'SelfAccessNode', 'SelectedAccessNode', 'ParamAccessNode', 'FieldAccessNode',
                          'IndexAccessNode', 'EnumOrNamedConstantNode', 'UnaryOperationNode',
                          'BinaryOperationNode', 'FunctionInvocationNode', 'ImplicitInvocationNode',
                          'InstanceInvocationNode'])


def null(v):
    return v is None or v == 0


def subtype_count(inst, rel):
    import xtuml
    n = 0
    for (kind, rel_id, phrase), link in xtuml.get_metaclass(inst).links.items():
        if rel_id == rel:
            n += len(link.navigate(inst))
    return n


def blocks_of(tree):
    '''every statement list of the program, in source order: [[statement nodes]]'''
    out = []
    for n in tree.walk():
        if n.cls == 'StatementListNode':
            out.append(list(n.kids))
    return out


def declarations(tree):
    """[(name, declaring statement node)] in source order, following OAL block scoping"""
    out = []

    def declared_name(s):
        if s.cls == 'AssignmentNode':
            t = s.kids[0]
            while t.cls == 'IndexAccessNode':
                t = t.kids[0]
            if t.cls == 'VariableAccessNode':
                return t.fields['variable_name']
        elif s.cls in ('CreateObjectNode', 'SelectFromNode', 'SelectFromWhereNode', 'SelectRelatedNode',
                       'SelectRelatedWhereNode', 'CreateInstanceEventNode', 'CreateClassEventNode',
                       'CreateCreatorEventNode'):
            return s.fields['variable_name']
        elif s.cls == 'ForEachNode':
            return s.fields['instance_variable_name']
        return None

    def nearest_lists(node):
        for k in node.kids:
            if isinstance(k, om.N):
                if k.cls == 'StatementListNode':
                    yield k
                else:
                    for x in nearest_lists(k):
                        yield x

    def visit(sl, scopes):
        scope = set()
        scopes = scopes + [scope]
        for st in sl.kids:
            name = declared_name(st)
            if name and not any(name in sc for sc in scopes):
                scope.add(name)
                out.append((name, st))
            for sub in nearest_lists(st):
                visit(sub, scopes)

    for top in nearest_lists(tree):
        visit(top, [])
    return out


def check(ctx, rng, home, deciding=True):
    import xtuml
    from xtuml import navigate_one as one, navigate_many as many
    from bridgepoint import prebuild
    g = pbgen.Gen(rng, home, events=True, bare_constants=True)
    tree = g.program()
    text = om.render(tree, rng, layout=rng.choice(('canonical', 'random')), case=rng.choice(('lower', 'lower', 'lower', 'upper', 'capital', 'random')))
    m = c05.fresh_model()
    inst = pbgen.home_instance(m, home)
    inst.Action_Semantics_internal = text
    inst.Suc_Pars = 1
    ctx.hit('Consistency.delta')
    before = (xtuml.check_association_integrity(m), xtuml.check_uniqueness_constraint(m))
    try:
        prebuild.prebuild_action(inst)
    except Exception as e:
        import traceback
        tb = traceback.extract_tb(e.__traceback__)
        fn = [f.name for f in tb if f.filename.startswith(ctx.root)]
        raise Mismatch('translate/%s@%s' % (type(e).__name__, fn[-1] if fn else '?'),
                       'prebuild raised %s: %s\n%s' % (type(e).__name__, e, text))
    ctx.hit('Home.' + home)
    # the population is closed: whatever a prebuilt instance is related to is an instance of this model (not one of
    # a model translated earlier in this process), and every link has its mirror image
    ctx.hit('Consistency.closed-population')
    from vf.xmodel import mirror_problems
    probs = mirror_problems(m)
    if probs:
        raise Mismatch('consistency/population-not-closed', '%s\n%s' % ('; '.join(probs[:3]), text))
    after = (xtuml.check_association_integrity(m), xtuml.check_uniqueness_constraint(m))
    if after[0] != before[0]:
        raise Mismatch('consistency/association-violations', 'prebuild changed the number of association '
                       'violations from %d to %d\n%s' % (before[0], after[0], text))
    if after[1] != before[1]:
        # state machine actions (explored without verdict): event data reads create V_EPR instances
        # whose identifier spans two exclusive conditional references, one of which is null
        nulls = 0
        if not deciding:
            mc = m.find_metaclass('V_EPR')
            nulls = sum(1 for i in mc.storage if null(i.PP_Id) != null(i.SMedi_ID))
        if nulls and nulls == after[1] - before[1]:
            ctx.count('beyond-domain.V_EPR-null-identifying-reference', nulls)
        else:
            raise Mismatch('consistency/identifier-violations', 'prebuild changed the number of identifier '
                           'violations from %d to %d\n%s' % (before[1], after[1], text))
    # -- subtype census -----------------------------------------------------
    smts = list(m.select_many('ACT_SMT'))
    vals = list(m.select_many('V_VAL'))
    for s in smts:
        ctx.hit('Census.ACT_SMT')
        n = subtype_count(s, 'R603')
        if n != 1:
            raise Mismatch('census/statement-subtypes', 'statement %r has %d subtypes\n%s' % (s.Label, n, text))
    for v in vals:
        ctx.hit('Census.V_VAL')
        n = subtype_count(v, 'R801')
        if n != 1:
            raise Mismatch('census/value-subtypes', 'value at %d:%d-%d has %d subtypes\n%s'
                           % (v.LineNumber, v.StartPosition, v.EndPosition, n, text))
    # -- positions and the statement map --------------------------------------
    smt_at = {}
    for s in smts:
        smt_at.setdefault((s.LineNumber, s.StartPosition), []).append(s)

    def smt_of(node):
        ctx.hit('Position.statement')
        if node.cls in ('InvocationStatementNode', 'AssignmentNode') and \
                text[node.pos[4]:node.pos[5]].split(None, 1)[0].lower() in ('bridge', 'transform'):
            ctx.hit('Position.legacy-keyword-statement')
        cands = [s for s in smt_at.get((node.pos[0], node.pos[1]), [])
                 if s.EndPosition == node.pos[3] and s.Label == text[node.pos[4]:node.pos[5]]]
        if len(cands) != 1:
            raise Mismatch('position/statement', '%d statement instances carry line %d, columns %d-%d and the '
                           'source text of %s (%r)\n%s' % (len(cands), node.pos[0], node.pos[1], node.pos[3],
                                                            node.cls, [(s.LineNumber, s.StartPosition, s.EndPosition)
                                                                       for s in smt_at.get((node.pos[0], node.pos[1]), [])],
                                                            text))
        return cands[0]
    val_at = {}
    for v in vals:
        val_at.setdefault((v.LineNumber, v.StartPosition, v.EndPosition), []).append(v)

    def val_of(node):
        ctx.hit('Position.value')
        cands = val_at.get((node.pos[0], node.pos[1], node.pos[3]), [])
        if not cands:
            raise Mismatch('position/value', 'no value instance at line %d, columns %d-%d for the %s %r\n%s'
                           % (node.pos[0], node.pos[1], node.pos[3], node.cls, text[node.pos[4]:node.pos[5]], text))
        return cands
    # -- statement chains (R661) -------------------------------------------------
    nontrivial = False
    for stmts in blocks_of(tree):
        insts = [smt_of(s) for s in stmts]
        if len(stmts) >= 3:
            nontrivial = True
        for i, s in enumerate(insts):
            ctx.hit('Chain.statements')
            prev = s.Previous_Statement_ID
            if i == 0:
                if not null(prev):
                    raise Mismatch('chain/previous-statement', 'the first statement of a block (%r) has a '
                                   'previous statement\n%s' % (s.Label, text))
            elif prev != insts[i - 1].Statement_ID:
                raise Mismatch('chain/previous-statement', 'Previous_Statement_ID of %r does not designate %r\n%s'
                               % (s.Label, insts[i - 1].Label, text))
        blocks = set(id(one(s).ACT_BLK[602]()) for s in insts)
        if len(blocks) > 1:
            raise Mismatch('chain/block', 'statements of one block belong to %d block instances\n%s'
                           % (len(blocks), text))
    # -- parameter chains (R816) ---------------------------------------------------
    for n in tree.walk():
        if n.cls in ('FunctionInvocationNode', 'ImplicitInvocationNode', 'InstanceInvocationNode'):
            params = [p.fields['name'] for p in n.kids[-1].kids]
            cands = val_of(n)
            found = None
            for v in cands:
                inv = one(v).V_FNV[801]() or one(v).V_BRV[801]() or one(v).V_TRV[801]()
                if inv is not None:
                    found = inv
            if found is None:
                raise Mismatch('census/invocation-value', 'the invocation %r has no invocation value\n%s'
                               % (text[n.pos[4]:n.pos[5]], text))
            rel = {'V_FNV': 817, 'V_BRV': 810, 'V_TRV': 811}[type(found).__name__]
            pars = list(many(found).V_PAR[rel]())
            if sorted(p.Name for p in pars) != sorted(params):
                raise Mismatch('chain/parameters-missing', 'invocation %r has parameters %r\n%s'
                               % (text[n.pos[4]:n.pos[5]], [p.Name for p in pars], text))
            if len(params) >= 2:
                nontrivial = True
            by_name = dict((p.Name, p) for p in pars)
            for i, name in enumerate(params):
                ctx.hit('Chain.parameters')
                nxt = by_name[name].Next_Value_ID
                if i == len(params) - 1:
                    if not null(nxt):
                        raise Mismatch('chain/next-parameter', 'the last parameter %s of %r has a next parameter\n%s'
                                       % (name, text[n.pos[4]:n.pos[5]], text))
                elif nxt != by_name[params[i + 1]].Value_ID:
                    raise Mismatch('chain/next-parameter', 'Next_Value_ID of parameter %s in %r does not designate '
                                   '%s\n%s' % (name, text[n.pos[4]:n.pos[5]], params[i + 1], text))
        # -- event statements: the event data chain (R700 / R816) ---------------------------
        # (which event and which target the instances designate is not part of the property's statement:
        #  observed and counted as 'beyond-domain.*', without verdict)
        if n.cls in ('GenerateInstanceEventNode', 'GenerateClassEventNode', 'GenerateCreatorEventNode',
                     'CreateInstanceEventNode', 'CreateClassEventNode', 'CreateCreatorEventNode'):
            spec = n.kids[0]
            src = text[n.pos[4]:n.pos[5]]
            e_ess = one(smt_of(n)).E_ESS[603]()
            if e_ess is None:
                raise Mismatch('census/event-statement', 'the statement %r is no event specification statement\n%s'
                               % (src, text))
            ctx.hit('Census.event-statement')
            create = n.cls.startswith('Create')
            if create:
                sme = one(e_ess).E_CES[701].E_CSME[702]()
                evt = one(sme).SM_EVT[706]()
                tgt = (one(sme).E_CEI[704](), one(sme).E_CEA[704](), one(sme).E_CEC[704]())
                evar = one(e_ess).E_CES[701].V_VAR[710]()
                edt = one(evar).S_DT[848]()
                if evar is None or evar.Name != n.fields['variable_name'] or edt is None or edt.Name != 'inst<Event>':
                    ctx.count('beyond-domain.event-variable')
            else:
                sme = one(e_ess).E_GES[701].E_GSME[703]()
                evt = one(sme).SM_EVT[707]()
                tgt = (one(sme).E_GEN[705](), one(sme).E_GAR[705](), one(sme).E_GEC[705]())
            want_kind = {'Instance': 0, 'Class': 1, 'Creator': 2}[n.cls.replace('Generate', '').replace('Create', '')
                                                                  .replace('EventNode', '')]
            if evt is None or evt.Drv_Lbl != spec.fields['identifier'] or \
                    [t is not None for t in tgt] != [i == want_kind for i in range(3)]:
                ctx.count('beyond-domain.event-or-target')
            items = [k.fields['name'] for k in spec.kids[0].kids]
            pars = list(many(e_ess).V_PAR[700]())
            if sorted(p.Name for p in pars) != sorted(items):
                raise Mismatch('chain/parameters-missing', 'event statement %r has the data items %r\n%s'
                               % (src, [p.Name for p in pars], text))
            by_name = dict((p.Name, p) for p in pars)
            for i, name in enumerate(items):
                ctx.hit('Chain.event-data')
                nxt = by_name[name].Next_Value_ID
                if i == len(items) - 1:
                    if not null(nxt):
                        raise Mismatch('chain/next-parameter', 'the last data item %s of %r has a next one\n%s'
                                       % (name, src, text))
                elif nxt != by_name[items[i + 1]].Value_ID:
                    raise Mismatch('chain/next-parameter', 'Next_Value_ID of data item %s in %r does not designate '
                                   '%s\n%s' % (name, src, items[i + 1], text))
            if len(items) >= 2:
                nontrivial = True
        # -- navigation chains (R604) ------------------------------------------------
        if n.cls in ('SelectRelatedNode', 'SelectRelatedWhereNode'):
            steps = [(s.fields['key_letter'], int(s.fields['rel_id'][1:]), s.fields['phrase']) for s in n.kids[1].kids]
            smt = smt_of(n)
            sel = one(smt).ACT_SEL[603]()
            lnk = one(sel).ACT_LNK[637]()
            all_lnk = dict((l.Link_ID, l) for l in m.select_many('ACT_LNK'))
            got = []
            guard = 0
            while lnk is not None and guard < 50:
                guard += 1
                got.append((one(lnk).O_OBJ[678]().Key_Lett, one(lnk).R_REL[681]().Numb, lnk.Rel_Phrase))
                nxt = lnk.Next_Link_ID
                lnk = None if null(nxt) else all_lnk.get(nxt)
            ctx.hit('Chain.navigation')
            if len(steps) >= 2:
                nontrivial = True
            if got != steps:
                raise Mismatch('chain/next-link', 'navigation steps following Next_Link_ID are %r, source order %r\n%s'
                               % (got, steps, text))
    # -- variable -> declaring block -------------------------------------------------
    by_name = {}
    for name, stmt in declarations(tree):
        by_name.setdefault(name, []).append(stmt)
    for name, stmts in by_name.items():
        vvar = [v for v in m.select_many('V_VAR') if v.Name == name]
        if len(vvar) != len(stmts):
            raise Mismatch('scope/variable-instances', 'the name %s is declared %d time(s) (in different blocks) '
                           'but has %d V_VAR instances\n%s' % (name, len(stmts), len(vvar), text))
        ctx.hit('Scope.variable-block', len(stmts))
        have = sorted(id(one(v).ACT_BLK[823]()) for v in vvar)
        want = sorted(id(one(smt_of(st)).ACT_BLK[602]()) for st in stmts)
        if have != want:
            raise Mismatch('scope/variable-block', 'variable %s does not belong to the block(s) of the statement(s) '
                           'that declare it (%r)\n%s' % (name, [text[st.pos[4]:st.pos[5]] for st in stmts], text))
    # -- typing ---------------------------------------------------------------------------
    for n in tree.walk():
        if n.cls not in EXPRESSION_CLASSES or n.sem is None or n.pos is None:
            continue
        kind = None
        if n.cls == 'BinaryOperationNode' and n.fields['operator'].lower() in ('<', '<=', '==', '!=', '>=', '>', 'and', 'or'):
            kind = 'comparison'
        elif n.cls == 'UnaryOperationNode' and n.fields['operator'].lower() in ('not', 'empty', 'not_empty'):
            kind = 'comparison'
        elif n.cls == 'UnaryOperationNode' and n.fields['operator'].lower() == 'cardinality':
            kind = 'cardinality'
        elif n.cls in ('IntegerNode', 'RealNode', 'StringNode', 'BooleanNode'):
            kind = 'literal'
        elif n.cls == 'EnumOrNamedConstantNode' and n.fields['namespace'] in ('Color', 'Mood'):
            kind = 'literal'
        elif n.cls == 'EnumOrNamedConstantNode' and n.fields['namespace'] in ('Consts', 'Limits'):
            kind = 'constant'
        elif n.cls == 'VariableAccessNode' and n.fields['variable_name'] in CONSTANT_NAMES:
            kind = 'constant'
        elif n.cls == 'VariableAccessNode':
            kind = 'selection' if isinstance(n.sem, tuple) and n.sem[0] in ('inst', 'set') else 'variable'
            if isinstance(n.sem, tuple) and n.sem[0] in ('array', 'array2'):
                kind = None
        elif n.cls == 'FieldAccessNode':
            kind = 'attribute'
        elif n.cls == 'ParamAccessNode':
            kind = 'event-data' if home in pbgen.HOME_EVENT_DATA else 'parameter'
        if kind is None:
            continue
        if isinstance(n.sem, tuple):
            want = ('inst_ref<Class_%s>' if n.sem[0] == 'inst' else 'inst_ref_set<Class_%s>') % n.sem[1]
        else:
            want = TYPE_NAME.get(n.sem)
        if want is None:
            continue
        ctx.hit('Typing.' + kind)
        names = []
        for v in val_of(n):
            dt = one(v).S_DT[820]()
            names.append(dt.Name if dt is not None else None)
        if want not in names:
            raise Mismatch('typing/%s' % kind, 'the %s %r is related to the data type %r, OAL typing gives %s\n%s'
                           % (kind, text[n.pos[4]:n.pos[5]], names, want, text))
    return text, nontrivial


def run(ctx):
    rng = ctx.rng
    for i in range(ctx.share(1000 if ctx.tier == 'quick' else 40000)):
        home = pbgen.HOMES[i % len(pbgen.HOMES)]
        try:
            text, nt = check(ctx, rng, home)
            ctx.case((home, text), nt, sample=dict(home=home, program=text))
            ctx.count('programs')
        except Mismatch as e:
            ctx.violation(e.key, e.what, case=dict(what=e.what))
    # outside the quantified domain (state and transition actions, event data reads): explored, counted, no verdict
    for i in range(ctx.share(100 if ctx.tier == 'quick' else 4000)):
        home = pbgen.EXTRA_HOMES[i % len(pbgen.EXTRA_HOMES)]
        try:
            check(ctx, rng, home, deciding=False)
            ctx.count('beyond-domain.programs-in-state-machine-actions')
        except Mismatch as e:
            ctx.count('beyond-domain.mismatch:' + e.key)
