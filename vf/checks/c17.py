'''
C17 - Ordered sets behave as insertion-ordered mathematical sets.

Oracle: a python list without duplicates (order claimed for add / |= and for
removal, which never reorders; for ^= and the non in-place algebra only the
element set) plus the structural invariant of the map / circular list pair,
evaluated after every operation of every history.
'''
import itertools

SUPPORTS_REPLAY = True
SHARDS = {'quick': 16, 'thorough': 64}
TIMEOUT = {'quick': 900, 'thorough': 5400}
MUST_HIT = ['OrderedSetInv', 'ListModel', 'icontract.OrderedSetInv', 'Operand.binary-operand-with-repeats', 'Operand.one-shot-iterator-operand', 'Operand.reverse-iteration-with-removal', 'Operand.mixed-kind-operands', 'Ambient.OrderedSetInv.ambient', 'Ambient.Suite.tests-passed']
MUST_REACH = ['xtuml/tools.py:OrderedSet.add', 'xtuml/tools.py:OrderedSet.discard',
              'xtuml/tools.py:OrderedSet.pop', 'xtuml/tools.py:OrderedSet.__eq__',
              'xtuml/tools.py:OrderedSet.__reversed__', 'xtuml/meta.py:QuerySet.last']
ANCHORS = MUST_REACH + ['xtuml/tools.py:OrderedSet.__iter__', 'xtuml/meta.py:QuerySet.first']
MIN_NONTRIVIAL = {'quick': 1000, 'thorough': 1000}
RULE = ('exhaustive: every operation history up to the depth bound over the '
        'universe {0,1,2} and the 28-operation alphabet (add/discard/remove x3, '
        'pop first/last, clear, |= x3, &= -= ^= x2, | & - ^, iteration with '
        'removal of the visited element x3) for OrderedSet and QuerySet, the '
        'full oracle evaluated after the last operation of each history (every '
        'prefix is itself a history of the enumeration); random: histories of '
        'length 200-3000 over universes of 4-40 elements with the oracle after '
        'every operation. A history is non-trivial when it passes through at '
        'least two different contents; enumerated histories are distinct by '
        'construction, random ones by hash of the operation sequence.'
        ' Binary operators also with the left operand of the other ordered-set class or a plain list / set / tuple (reflected operators); membership probed with None and other never-members.')
ASSUMPTIONS = ['the list-without-duplicates model is the specification',
               'equality is exercised against ordered collections only '
               '(lists, tuples, OrderedSet, QuerySet) without duplicates']

U = (0, 1, 2)


def alphabet(universe):
    ops = []
    for x in universe[:3]:
        ops.append(('add', x))
    for x in universe[:3]:
        ops.append(('discard', x))
    for x in universe[:3]:
        ops.append(('remove', x))
    ops += [('pop', True), ('pop', False), ('clear',)]
    u = universe
    ops += [('ior', (u[2], u[0])), ('ior', (u[1],)), ('ior', ())]
    ops += [('iand', (u[0], u[1])), ('iand', (u[2],))]
    ops += [('isub', (u[0], u[1])), ('isub', (u[2],))]
    ops += [('ixor', (u[0], u[1])), ('ixor', (u[2],))]
    # plain sequences that repeat an element (a mathematical set does not care)
    ops += [('ixor', (u[0], u[1], u[0])), ('isub', (u[1], u[2], u[1])), ('iand', (u[0], u[0], u[2]))]
    ops += [('or', (u[1], u[2])), ('and', (u[1], u[2])), ('sub', (u[1], u[2])),
            ('xor', (u[1], u[2]))]
    ops += [('iterrm', (u[0], u[1], u[2])), ('iterrm', (u[0],)), ('iterrm', (u[1], u[2]))]
    return ops


class Mismatch(Exception):
    def __init__(self, key, what):
        Exception.__init__(self, what)
        self.key = key
        self.what = what


def one_shot(items, n):
    '''an operand that can be iterated once only: a list iterator, a generator, a reversed view or a map'''
    HITS['one-shot-iterator-operand'] = HITS.get('one-shot-iterator-operand', 0) + 1
    items = list(items)
    k = n % 4
    if k == 0:
        return iter(items)
    if k == 1:
        return (x for x in items)
    if k == 2:
        return reversed(items[::-1])
    return map(lambda x: x, items)


def invariant(s):
    '''map <-> circular doubly linked list with sentinel agree'''
    end = s.end
    if end[0] is not None:
        return 'sentinel key is %r' % (end[0],)
    n = len(s.map)
    curr = end[2]
    prev = end
    steps = 0
    seen = set()
    while curr is not end:
        if steps > n:
            return 'list longer than map (%d)' % n
        if curr[1] is not prev:
            return 'prev pointer of %r not mirrored' % (curr[0],)
        if s.map.get(curr[0]) is not curr:
            return 'map[%r] is not the list node' % (curr[0],)
        if curr[0] in seen:
            return 'key %r twice in list' % (curr[0],)
        seen.add(curr[0])
        prev = curr
        curr = curr[2]
        steps += 1
    if end[1] is not prev:
        return 'sentinel prev does not designate the last node'
    if steps != n:
        return 'list has %d nodes, map %d' % (steps, n)
    return None


def apply(s, model, op, cls):
    '''
    apply *op* to the real set *s* and to the list *model*; returns the new
    model. Raises Mismatch when an immediate result differs.
    '''
    name = op[0]
    if name == 'add':
        s.add(op[1])
        if op[1] not in model:
            model = model + [op[1]]
    elif name == 'discard':
        s.discard(op[1])
        model = [x for x in model if x != op[1]]
    elif name == 'remove':
        try:
            s.remove(op[1])
            raised = False
        except KeyError:
            raised = True
        if raised != (op[1] not in model):
            raise Mismatch('remove/keyerror', 'remove(%r) raised=%s on %r' % (op[1], raised, model))
        model = [x for x in model if x != op[1]]
    elif name == 'pop':
        try:
            got = s.pop(last=op[1])
            raised = False
        except KeyError:
            raised = True
            got = None
        if raised != (not model):
            raise Mismatch('pop/keyerror', 'pop(last=%s) raised=%s on %r' % (op[1], raised, model))
        if model:
            exp = model[-1] if op[1] else model[0]
            if got != exp:
                raise Mismatch('pop/value', 'pop(last=%s) gave %r, expected %r on %r'
                               % (op[1], got, exp, model))
            model = model[:-1] if op[1] else model[1:]
    elif name == 'clear':
        s.clear()
        model = []
    elif name == 'ior':
        s |= one_shot(op[1], len(model)) if len(model) % 3 == 2 else (cls(op[1]) if len(op[1]) % 2 else list(op[1]))
        model = model + [x for i, x in enumerate(op[1])
                         if x not in model and x not in op[1][:i]]
    elif name == 'iand':
        s &= one_shot(op[1], len(model)) if len(model) % 3 == 2 else (list(op[1]) if len(op[1]) == 3 else set(op[1]))
        model = [x for x in model if x in op[1]]
    elif name == 'isub':
        s -= one_shot(op[1], len(model)) if len(model) % 3 == 2 else (list(op[1]) if len(op[1]) == 3 else cls(op[1]))
        model = [x for x in model if x not in op[1]]
    elif name == 'ixor':
        s ^= one_shot(op[1], len(model)) if len(model) % 3 == 2 else list(op[1])
        want = set(model) ^ set(op[1])
        if set(s) != want:
            raise Mismatch('ixor/elements', '^= %r on %r gave %r' % (op[1], model, list(s)))
        kept = [x for x in model if x in want]
        if [x for x in s if x in model] != kept:
            raise Mismatch('ixor/order', '^= %r reordered the remaining elements of %r: %r'
                           % (op[1], model, list(s)))
        model = list(s)   # order of the elements that arrived through ^= is not claimed
    elif name in ('or', 'and', 'sub', 'xor'):
        before = list(s)
        # the other operand is an ordered set, or a plain sequence - which may name an element more than once
        style = (len(before) + len(op[1])) % 4
        if style == 0 or not op[1]:
            other = cls(op[1])
        elif style == 1:
            other = list(op[1])
        elif style == 2:
            other = list(op[1]) + list(reversed(op[1]))
            HITS['binary-operand-with-repeats'] = HITS.get('binary-operand-with-repeats', 0) + 1
        else:
            other = tuple([op[1][0]] * (len(before) + 1) + list(op[1]))
            HITS['binary-operand-with-repeats'] = HITS.get('binary-operand-with-repeats', 0) + 1
        other_before = list(other)
        if name == 'or':
            r = s | other
            want = set(model) | set(op[1])
        elif name == 'and':
            r = s & other
            want = set(model) & set(op[1])
        elif name == 'sub':
            r = s - other
            want = set(model) - set(op[1])
        else:
            r = s ^ other
            want = set(model) ^ set(op[1])
        if set(r) != want or len(r) != len(want):
            raise Mismatch('algebra/' + name, '%r %s %r gave %r' % (model, name, other_before, list(r)))
        if list(s) != before or list(other) != other_before:
            raise Mismatch('algebra/operand-changed', '%s changed an operand' % name)
        if not isinstance(r, cls):
            raise Mismatch('algebra/type', '%s returned a %s' % (name, type(r).__name__))
        # the other operand may be any iterable, also one that can be walked only once
        import operator
        fn = {'or': operator.or_, 'and': operator.and_, 'sub': operator.sub, 'xor': operator.xor}[name]
        r2 = fn(s, one_shot(other_before, len(before) + len(op[1])))
        if set(r2) != want or len(r2) != len(want) or list(s) != before:
            raise Mismatch('algebra/' + name, '%r %s <one-shot iterator over %r> gave %r'
                           % (model, name, other_before, list(r2)))
        bad = invariant(r)
        if bad:
            raise Mismatch('invariant', 'result of %s: %s' % (name, bad))
        # operands of different kinds: the left operand is the other ordered-set class, or a plain collection (then
        # the reflected operator of the right operand computes the result); a mathematical set does not care
        HITS['mixed-kind-operands'] = HITS.get('mixed-kind-operands', 0) + 1
        right = cls(op[1])
        for left in [k(before) for k in classes() if k is not cls] + [list(before), set(before), tuple(before)]:
            if isinstance(left, tuple) and style != 3:
                continue
            try:
                r3 = fn(left, right)
            except TypeError:
                if isinstance(left, (list, tuple, set)):
                    raise Mismatch('algebra/reflected-' + name, '%s %s %s(%r) is a TypeError' % (
                        type(left).__name__, name, cls.__name__, op[1]))
                raise
            if set(r3) != want or len(r3) != len(want):
                raise Mismatch('algebra/mixed-' + name, '%s(%r) %s %s(%r) gave %r' % (
                    type(left).__name__, before, name, cls.__name__, op[1], list(r3)))
            if list(right) != list(cls(op[1])) or list(left) != list(type(left)(before)):
                raise Mismatch('algebra/operand-changed', 'mixed %s changed an operand' % name)
        # the result is a set of its own: changing it afterwards leaves both operands as they were
        marker = ('marker', len(before))
        r.add(marker)
        if list(s) != before or list(other) != other_before:
            raise Mismatch('algebra/result-aliases-operand', 'adding to the result of %r %s %r changed an operand'
                           % (model, name, op[1]))
        r.discard(marker)
        if r:
            r.pop()
            if list(s) != before or list(other) != other_before:
                raise Mismatch('algebra/result-aliases-operand', 'popping from the result of %r %s %r changed an '
                               'operand' % (model, name, op[1]))
    elif name == 'iterrm':
        visited = []
        k = len(op[1])
        # forwards, or in reverse (reversed() is iteration as well)
        backwards = (len(model) + len(op[1])) % 2 == 1
        if backwards:
            HITS['reverse-iteration-with-removal'] = HITS.get('reverse-iteration-with-removal', 0) + 1
        for x in (reversed(s) if backwards else s):
            visited.append(x)
            if x in op[1]:
                # the visited element goes away through remove() and through discard() in turn
                k += 1
                if k % 2:
                    s.discard(x)
                else:
                    s.remove(x)
        if visited != (model[::-1] if backwards else model):
            raise Mismatch('iteration-with-removal', 'removing %r while iterating %r%s visited %r'
                           % (op[1], model, ' in reverse' if backwards else '', visited))
        model = [x for x in model if x not in op[1]]
    else:
        raise AssertionError(op)
    return model


def observe(ctx, s, model, universe, cls):
    '''the full oracle on one state'''
    ctx.hit('OrderedSetInv')
    bad = invariant(s)
    if bad:
        raise Mismatch('invariant', bad)
    ctx.hit('ListModel')
    got = list(s)
    if got != model:
        raise Mismatch('order', 'iterates %r, model %r' % (got, model))
    rev = list(reversed(s))
    if rev != model[::-1]:
        raise Mismatch('reversed', 'reversed gives %r, model %r' % (rev, model[::-1]))
    if len(s) != len(model):
        raise Mismatch('len', 'len %d, model %d' % (len(s), len(model)))
    if bool(s) != bool(model):
        raise Mismatch('len', 'truth value %s on %r' % (bool(s), model))
    for x in tuple(universe) + (None, ('marker', 0), '', False if 0 not in model else None):
        # (False == 0: probed only while 0 is not a member; None and the others are never members - an empty set holds
        # nothing at all)
        if (x in s) != (x in model):
            raise Mismatch('membership', '%r in s is %s, model %r' % (x, x in s, model))
    if hasattr(s, 'first'):
        f = model[0] if model else None
        l = model[-1] if model else None
        if s.first != f or s.last != l:
            raise Mismatch('first-last', 'first/last %r/%r, model %r' % (s.first, s.last, model))
    # equality: exactly the ordered collections with the same elements in the same order
    eqs = [(list(model), True), (tuple(model), True), (cls(model), True)]
    if len(model) >= 2:
        eqs += [(model[::-1], False), (cls(model[::-1]), False),
                (model[1:] + model[:1], False)]
    eqs += [(model + ['zz'], False), (cls(model + ['zz']), False)]
    if model:
        eqs += [(model[:-1], False), (tuple(model[1:]), False),
                (model[:-1] + ['zz'], False)]
    for other, want in eqs:
        if (s == other) != want:
            raise Mismatch('equality', '%r == %r is %s' % (model, other, s == other))
        if (s != other) == want:
            raise Mismatch('equality', '%r != %r is %s' % (model, other, s != other))


def run_history(ctx, cls, ops, universe, every):
    from vf.ctx import cpu_budget, BudgetExceeded
    try:
        with cpu_budget(5 + len(ops) // 50):
            return _run_history(ctx, cls, ops, universe, every)
    except BudgetExceeded as e:
        raise Mismatch('non-termination', 'history did not finish: %s' % e)


def _run_history(ctx, cls, ops, universe, every):
    s = cls()
    model = []
    states = 1
    last = len(ops) - 1
    for i, op in enumerate(ops):
        new = apply(s, model, op, cls)
        if new != model:
            states += 1
        model = new
        if every or i == last:
            observe(ctx, s, model, universe, cls)
    return states


def classes():
    import xtuml
    from xtuml.meta import QuerySet
    return [xtuml.OrderedSet, QuerySet]


def icontract_history(ctx, n):
    '''
    The same invariant as an icontract class invariant on subclasses of the
    real classes (so every public method, including the inherited mixins'
    calls to add/discard, is checked at entry and exit), driven by random
    histories.
    '''
    import icontract
    import xtuml

    class InvariantBroken(Exception):
        pass

    evals = [0]

    def list_matches_map(self):
        evals[0] += 1
        return invariant(self) is None

    class Checked(xtuml.OrderedSet):
        # re-declare the mutators so that the invariant wraps the real code
        def add(self, key):
            return xtuml.OrderedSet.add(self, key)

        def discard(self, key):
            return xtuml.OrderedSet.discard(self, key)

        def pop(self, last=True):
            return xtuml.OrderedSet.pop(self, last)

    Checked = icontract.invariant(list_matches_map, error=InvariantBroken)(Checked)
    rng = ctx.rng
    for _ in range(n):
        size = rng.choice((4, 8, 16))
        universe = tuple(range(size))
        ops = random_ops(rng, universe, rng.randint(50, 300))
        s = Checked()
        model = []
        from vf.ctx import cpu_budget, BudgetExceeded
        try:
            with cpu_budget(20):
                for op in ops:
                    model = apply(s, model, op, Checked)
                if list(s) != model:
                    raise Mismatch('order', 'iterates %r, model %r' % (list(s), model))
        except BudgetExceeded as e:
            ctx.violation('non-termination', 'history did not finish: %s' % e,
                          case=dict(cls='OrderedSet', ops=ops))
        except InvariantBroken as e:
            ctx.violation('invariant', 'icontract invariant: %s' % e,
                          case=dict(cls='OrderedSet', ops=ops))
        except Mismatch as e:
            ctx.violation(e.key, e.what, case=dict(cls='OrderedSet', ops=ops))
        ctx.case(('ic', ops), True)
    ctx.hit('icontract.OrderedSetInv', evals[0])
    for k, v in HITS.items():
        ctx.hit('Operand.' + k, v)


HITS = {}


def random_ops(rng, universe, length):
    ops = []
    for _ in range(length):
        k = rng.random()
        pick = lambda: rng.choice(universe)
        some = lambda: tuple(rng.sample(universe, rng.randint(0, min(5, len(universe)))))
        if k < 0.35:
            ops.append(('add', pick()))
        elif k < 0.45:
            ops.append(('discard', pick()))
        elif k < 0.50:
            ops.append(('remove', pick()))
        elif k < 0.58:
            ops.append(('pop', rng.random() < 0.5))
        elif k < 0.59:
            ops.append(('clear',))
        elif k < 0.69:
            ops.append(('ior', some()))
        elif k < 0.74:
            ops.append(('iand', tuple(rng.sample(universe, max(1, len(universe) * 3 // 4)))))
        elif k < 0.79:
            ops.append(('isub', some()))
        elif k < 0.84:
            ops.append(('ixor', some()))
        elif k < 0.92:
            ops.append((rng.choice(('or', 'and', 'sub', 'xor')), some()))
        else:
            ops.append(('iterrm', some()))
    return ops


def run(ctx):
    clss = classes()
    if ctx.params.get('replay'):
        case = ctx.params['replay']['case']
        cls = [c for c in clss if c.__name__ == case['cls']][0]
        ops = [tuple(tuple(a) if isinstance(a, list) else a for a in op) for op in case['ops']]
        try:
            run_history(ctx, cls, ops, tuple(range(40)), True)
            print('replay: no violation')
        except Mismatch as e:
            ctx.violation(e.key, e.what, case=case)
        return

    depth = 4 if ctx.tier == 'quick' else 5
    ops = alphabet(U)
    prefixes = list(itertools.product(range(len(ops)), repeat=2))
    total = 0
    for cls in clss:
        # lengths 1 and 2 (shard 0 only), then every longer history by prefix
        if ctx.shard == 0:
            for L in (1, 2):
                for hist in itertools.product(ops, repeat=L):
                    total += one(ctx, cls, hist, U, False)
        for p in ctx.chunk(prefixes):
            head = (ops[p[0]], ops[p[1]])
            for L in range(3, depth + 1):
                for tail in itertools.product(ops, repeat=L - 2):
                    total += one(ctx, cls, head + tail, U, False)
    ctx.set_exhaustive('histories over 28 operations x {OrderedSet, QuerySet}',
                       'length <= %d' % depth, total)
    ctx.sample(dict(cls='QuerySet', ops=[ops[3], ops[0], ops[25], ops[13]]))

    # random long histories, oracle after every step
    n = ctx.share(400 if ctx.tier == 'quick' else 6000)
    rng = ctx.rng
    for i in range(n):
        cls = clss[i % 2]
        size = rng.choice((4, 6, 10, 40))
        universe = tuple(range(size))
        hist = random_ops(rng, universe, rng.randint(200, 3000 if ctx.tier == 'thorough' else 600))
        try:
            states = run_history(ctx, cls, hist, universe, True)
            ctx.case(('rnd', cls.__name__, hist), states > 1,
                     sample=dict(cls=cls.__name__, ops=hist[:12], length=len(hist)))
            ctx.count('random_histories')
            ctx.count('random_operations', len(hist))
        except Mismatch as e:
            ctx.violation(e.key, e.what, case=dict(cls=cls.__name__, ops=hist))
    icontract_history(ctx, ctx.share(64 if ctx.tier == 'quick' else 1000))
    if ctx.shard == ctx.nshards - 1:
        # every ordered set the library builds while the repository's own tests run (link entries, query results,
        # instance pools): structural invariant after each mutation (always up to 12 elements, sampled above)
        from vf import ambient
        ambient.report(ctx, ambient.run_suite(ctx, ('sets',)), 'Ambient')


def one(ctx, cls, hist, universe, every):
    try:
        states = run_history(ctx, cls, hist, universe, every)
        ctx.case_enum(states > 1)
    except Mismatch as e:
        ctx.violation(e.key, e.what, case=dict(cls=cls.__name__, ops=list(hist)))
    return 1

LEVEL_TEXT = ('Bounded-exhaustive plus random exploration of the real OrderedSet/QuerySet '
              'under a list-model oracle and a structural invariant evaluated after every '
              'operation: held on every history of length <= 4 (quick) / <= 5 (thorough) over a '
              '28-operation alphabet, and on random histories up to 3000 operations. No claim '
              'beyond the explored histories.')
LEVEL_NOTE = ('Trusted: the list-without-duplicates model and the invariant walker in '
              'vf/checks/c17.py; CPython. Order is not claimed for elements arriving through ^= '
              'or the non in-place operators.')
TECHNIQUE = 'runtime monitoring: reference-model oracle + structural invariant (also as icontract class invariant) over exhaustive/random operation histories'
