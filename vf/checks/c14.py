'''
C14 - Component extraction mirrors the BridgePoint class model.

Oracle: the reference mapping of vf.bpsynth (diagram -> classes / identifiers
/ associations) compared with the component built by bridgepoint from the
synthesised model rows; edits are re-mapped by the same reference (the
predicted delta is the difference of the two reference results); the SQL
schema written by gen_sql_schema must load back to the same definitions.
'''
import os
import shutil
import sys
import tempfile

from vf import bpsynth as bp

SHARDS = {'quick': 16, 'thorough': 64}
TIMEOUT = {'quick': 1500, 'thorough': 7200}
MUST_HIT = ['EarlierObject.rechecked', 'Mapping.whole-model', 'Mapping.component', 'Mapping.derived-attributes', 'Mapping.after-edit',
            'Mapping.simple', 'Mapping.linked', 'Mapping.subsuper', 'Mapping.reflexive', 'Schema.roundtrip',
            'Mapping.real-model-edit', 'Mapping.unsupported-attribute-type', 'Mapping.identifier-of-derived-attribute', 'Mapping.identifier-mixing-plain-and-derived', 'Mapping.phrase-at-one-end-only',
            'Mapping.subtypes-on-compound-identifier', 'Mapping.relationship-number-used-twice']
MUST_REACH = ['bridgepoint/ooaofooa.py:mk_class', 'bridgepoint/ooaofooa.py:mk_simple_association',
              'bridgepoint/ooaofooa.py:mk_linked_association', 'bridgepoint/ooaofooa.py:mk_subsuper_association',
              'bridgepoint/ooaofooa.py:_get_related_attributes', 'bridgepoint/ooaofooa.py:_get_data_type_name',
              'bridgepoint/ooaofooa.py:get_attribute_type', 'bridgepoint/ooaofooa.py:is_contained_in',
              'bridgepoint/ooaofooa.py:ModelLoader.build_component', 'bridgepoint/gen_sql_schema.py:main']
ANCHORS = MUST_REACH
MIN_NONTRIVIAL = {'quick': 200, 'thorough': 200}
RULE = ('class diagrams synthesised at random: 2-6 classes (some inside a component), ordered attributes of '
        'core, enumeration and user-defined types, derived attributes, 1-3 identifiers, simple (incl. '
        'reflexive), linked (incl. reflexive) and subtype relationships whose two ends always get different '
        'multiplicity / conditionality / phrases; written as ooaofooa rows in random row order, loaded with '
        'bridgepoint, extracted as a whole and per component, with and without derived attributes; then 1-3 '
        'edits (rename / retype / reorder attribute, toggle Mult or Cond at one end, change one phrase, move '
        'a class into the component) and re-extraction; the schema written by gen_sql_schema loaded back; '
        'the same edits at every applicable row of tests/resources/Simple_Model.xtuml against an independent '
        'reading of its rows. Non-trivial = at least one association; distinct by hash of the row text.')
ASSUMPTIONS = ['reference mapping: FROM <referring end mult/cond> TO <referred end mult/cond>; phrases only '
               'for reflexive relationships (an end carries the phrase of the opposite modelled end); linked '
               'relationships give one association per side from the link class with the other side\'s '
               'multiplicity and a TO end of 1; subtypes are FROM 1C sub TO 1 super',
               'key attribute pairs and the attributes of an identifier are compared as sets (their order follows row order)']
LEVEL_TEXT = ('Random exploration with a reference mapping: synthesised BridgePoint class models and edits of '
              'them (and of the shipped sample model) extracted by the real code and compared field by field '
              'with an independently computed expectation; held on all explored models.')
LEVEL_NOTE = 'Trusted: vf/bpsynth.py (row synthesis, reference mapping, independent row reader).'
TECHNIQUE = 'runtime monitoring: reference-model oracle (diagram -> expected component) + metamorphic edits + schema round trip'

TYPES = ['boolean', 'integer', 'real', 'string', 'unique_id']


class Mismatch(Exception):
    def __init__(self, key, what):
        Exception.__init__(self, what)
        self.key = key
        self.what = what


def random_diagram(rng, derived_keys=False, extras=False):
    d = bp.Diagram()
    d.component = 'Comp'
    d.enums = [('Color', ['Red', 'Green', 'Blue'], 'pkg')]
    d.udts = [('Count_t', 'integer', 'pkg'), ('Label_t', 'string', 'comp'), ('Deep_t', 'Count_t', 'pkg')]
    all_types = TYPES + ['Color', 'Count_t', 'Label_t', 'Deep_t']
    n = rng.randint(2, 6)
    for i in range(n):
        attrs = [bp.Attr('Id', 'unique_id')]
        for j in range(rng.randint(0, 3)):
            attrs.append(bp.Attr('a%d_%d' % (i, j), rng.choice(all_types)))
        if rng.random() < 0.3:
            at = rng.randint(1, len(attrs))
            attrs.insert(at, bp.Attr('der%d' % i, rng.choice(('integer', 'string')), derived='self.der%d = 1;' % i))
            # one to three derived attributes in a row
            for extra in range(rng.choice((0, 0, 1, 2))):
                attrs.insert(at + 1 + extra, bp.Attr('der%d_%d' % (i, extra), rng.choice(('integer', 'boolean')),
                                                     derived='self.der%d_%d = 2;' % (i, extra)))
        if rng.random() < 0.3:
            attrs.append(bp.Attr('k2_%d' % i, 'integer'))
        idents = [['Id']]
        if len(attrs) > 2 and rng.random() < 0.5:
            idents.append([a.name for a in attrs[1:3] if a.derived is None] or ['Id'])
        if derived_keys:
            # an identifier made of a derived attribute (other classes may refer to it)
            ders = [a.name for a in attrs if a.derived is not None]
            if ders:
                idents.append([ders[0]])
        d.classes.append(bp.Cls('Class %d' % i, 'K%d' % i, i + 1, attrs, idents,
                                where=rng.choice(('pkg', 'comp', 'comp'))))
    if rng.random() < 0.5:
        d.classes.append(bp.Cls('Elsewhere', 'KX', 99, [bp.Attr('Id', 'unique_id'), bp.Attr('n', 'integer')],
                                [['Id']], where=rng.choice(('comp2', 'comp2', 'direct2'))))
    if rng.random() < 0.5:
        # inside a component nested in the component under test (takes part in no relationship)
        d.classes.append(bp.Cls('Deep inside', 'KN', 98, [bp.Attr('Id', 'unique_id'), bp.Attr('m', 'string')],
                                [['Id']], where=rng.choice(('nested', 'deep', 'direct', 'direct-nested'))))
    counter = 0
    for _ in range(rng.randint(1, 5)):
        counter += rng.randint(1, 3)
        numb = counter
        kind = rng.choice(('simple', 'simple', 'linked', 'subsuper'))
        avoid = set()
        if d.rels and rng.random() < 0.2:
            # relationship numbers are unique within one class diagram only: a number is used a second time, between
            # other classes (the names of the referential attributes carry a mark so that they stay distinct)
            again = rng.choice(d.rels)
            if isinstance(again, bp.Simple):
                avoid = set((again.form.kl, again.part.kl))
            elif isinstance(again, bp.Linked):
                avoid = set((again.one.kl, again.other.kl, again.link_kl))
            else:
                avoid = set([again.super_kl] + [k for k, _ in again.subs])
            avoid |= set(kl for r in d.rels if r.numb == again.numb and r is not again
                         for kl in ([r.form.kl, r.part.kl] if isinstance(r, bp.Simple) else
                                    [r.one.kl, r.other.kl, r.link_kl] if isinstance(r, bp.Linked) else
                                    [r.super_kl] + [k for k, _ in r.subs]))
            numb = again.numb
            STATS['relationship-number-used-twice-tried'] = STATS.get('relationship-number-used-twice-tried', 0) + 1

        def pick(where=None):
            cs = [c for c in d.classes if c.where not in bp.ISOLATED and (where is None or c.where == where)
                  and c.kl not in avoid]
            return rng.choice(cs) if cs else None

        def ends():
            # the two ends never agree, so that a swap cannot hide
            m1, c1 = rng.randint(0, 1), rng.randint(0, 1)
            m2, c2 = rng.randint(0, 1), rng.randint(0, 1)
            if (m1, c1) == (m2, c2):
                m2 = 1 - m2
            pa, pb = 'ph%da' % numb, 'ph%db' % numb
            if rng.random() < 0.25:
                # a phrase at one end only (a model in the making, or one whose author named one direction)
                STATS['phrase-at-one-end-only'] = STATS.get('phrase-at-one-end-only', 0) + 1
                if rng.random() < 0.5:
                    pa = ''
                else:
                    pb = ''
            return (m1, c1, pa), (m2, c2, pb)
        if kind == 'simple':
            form = pick()
            part = pick(form.where if form.where == 'comp' else None) if form is not None else None
            if form is None or part is None:
                continue
            where = 'comp' if form.where == 'comp' and part.where == 'comp' else 'pkg'
            if where == 'pkg' and (form.where == 'comp') != (part.where == 'comp') and False:
                continue
            e1, e2 = ends()
            key_n = rng.choice([n for n in range(len(part.identifiers))])
            keys = part.identifiers[key_n]
            pairs = []
            for k in keys:
                an = 'r%d_%s' % (numb, k)
                form.attrs.insert(rng.randint(1, len(form.attrs)), bp.Attr(an, None))
                pairs.append((an, k))
            d.rels.append(bp.Simple(numb, bp.End(form.kl, *e1), bp.End(part.kl, *e2), pairs, key_n, where))
        elif kind == 'linked':
            if len(d.classes) < 2:
                continue
            link = pick()
            if link is None:
                continue
            others = [c for c in d.classes if c is not link and c.where not in bp.ISOLATED and (link.where != 'comp' or c.where == 'comp')
                      and c.kl not in avoid]
            if not others:
                continue
            one, other = rng.choice(others), rng.choice(others)
            where = 'comp' if all(c.where == 'comp' for c in (link, one, other)) else 'pkg'
            e1, e2 = ends()
            a1, a2 = 'l%d_one' % numb, 'l%d_oth' % numb
            link.attrs.append(bp.Attr(a1, None))
            link.attrs.append(bp.Attr(a2, None))
            d.rels.append(bp.Linked(numb, bp.End(one.kl, *e1), bp.End(other.kl, *e2), link.kl, rng.randint(0, 1),
                                    [(a1, 'Id')], [(a2, 'Id')], where))
        else:
            if len(d.classes) < 3:
                continue
            sup = pick()
            if sup is None:
                continue
            subs = [c for c in d.classes if c is not sup and c.where == sup.where and c.where not in bp.ISOLATED
                    and c.kl not in avoid]
            if not subs:
                continue
            chosen = rng.sample(subs, min(len(subs), rng.randint(1, 2)))
            sub_list = []
            # the subtypes refer to one of the supertype's identifiers, which may consist of several attributes
            usable = [n for n, names in enumerate(sup.identifiers)
                      if names and all(sup.attr(x).derived is None for x in names)]
            key_n = rng.choice(usable) if usable and rng.random() < 0.5 else 0
            keys = sup.identifiers[key_n]
            if len(keys) > 1:
                STATS['subtypes-on-compound-identifier'] = STATS.get('subtypes-on-compound-identifier', 0) + 1
            for s in chosen:
                pairs = []
                for k in keys:
                    an = 's%d_%s_%s' % (numb, s.kl, k)
                    s.attrs.insert(rng.randint(1, len(s.attrs)) if len(keys) > 1 else 1, bp.Attr(an, None))
                    pairs.append((an, k))
                sub_list.append((s.kl, pairs))
                # the referential attribute may itself be referred to (chains of referentials)
                s.identifiers.append([an for an, _ in pairs])
            d.rels.append(bp.SubSuper(numb, sup.kl, sub_list, sup.where, key_n))
    if len(set(r.numb for r in d.rels)) < len(d.rels):
        STATS['relationship-number-used-twice'] = STATS.get('relationship-number-used-twice', 0) + 1
    if extras:
        # what component extraction must leave out: attributes of data types that are no core type
        # (the state attribute, instance references, void), and - unless derived attributes are asked
        # for - an identifier made of a derived attribute (added last: no relationship refers to it)
        for c in d.classes:
            if rng.random() < 0.35:
                STATS['unsupported-attribute-type'] = STATS.get('unsupported-attribute-type', 0) + 1
                c.attrs.insert(rng.randint(1, len(c.attrs)),
                               bp.Attr(*rng.choice((('current_state', 'state<State_Model>'),
                                                    ('peer', 'inst_ref<Object>'), ('nothing', 'void')))))
            ders = [a.name for a in c.attrs if a.derived is not None]
            if ders and rng.random() < 0.6:
                STATS['identifier-of-derived-attribute'] = STATS.get('identifier-of-derived-attribute', 0) + 1
                c.identifiers.append([ders[0]])
            plain = [a.name for a in c.attrs[1:] if a.derived is None and a.type in TYPES]
            if ders and plain and rng.random() < 0.6:
                # an identifier that mixes a plain and a derived attribute: without derived attributes it cannot be
                # stated at all (a part of it would be a constraint the model does not make)
                c.identifiers.append([plain[0], ders[-1]] if rng.random() < 0.5 else [ders[-1], plain[0]])
                STATS['identifier-mixing-plain-and-derived'] = STATS.get('identifier-mixing-plain-and-derived', 0) + 1
    return d


STATS = {}


def edit(rng, d):
    '''apply one random edit in place; -> description or None'''
    k = rng.choice(('rename', 'retype', 'reorder', 'mult', 'cond', 'phrase', 'move'))
    c = rng.choice(d.classes)
    if k == 'rename':
        plain = [a for a in c.attrs if a.type is not None and a.name != 'Id'
                 and not any(a.name in i for i in c.identifiers)]
        if not plain:
            return None
        a = rng.choice(plain)
        a.name = a.name + '_x'
        return ('rename', c.kl, a.name)
    if k == 'retype':
        plain = [a for a in c.attrs if a.type is not None and a.name != 'Id' and a.derived is None
                 and not any(a.name in i for i in c.identifiers)]
        if not plain:
            return None
        a = rng.choice(plain)
        a.type = rng.choice(TYPES + ['Color', 'Count_t'])
        return ('retype', c.kl, a.name, a.type)
    if k == 'reorder':
        if len(c.attrs) < 2:
            return None
        i, j = rng.sample(range(len(c.attrs)), 2)
        c.attrs[i], c.attrs[j] = c.attrs[j], c.attrs[i]
        return ('reorder', c.kl, i, j)
    if k in ('mult', 'cond', 'phrase'):
        rels = [r for r in d.rels if not isinstance(r, bp.SubSuper)]
        if not rels:
            return None
        r = rng.choice(rels)
        end = rng.choice((r.form, r.part) if isinstance(r, bp.Simple) else (r.one, r.other))
        if k == 'mult':
            end.mult = 1 - end.mult
        elif k == 'cond':
            end.cond = 1 - end.cond
        else:
            end.phrase = end.phrase + ' edited'
        return (k, r.numb, end.kl)
    if k == 'move':
        # a class without relationships may change its container
        involved = set()
        for r in d.rels:
            if isinstance(r, bp.Simple):
                involved |= set((r.form.kl, r.part.kl))
            elif isinstance(r, bp.Linked):
                involved |= set((r.one.kl, r.other.kl, r.link_kl))
            else:
                involved |= set([r.super_kl] + [s for s, _ in r.subs])
        free = [c for c in d.classes if c.kl not in involved]
        if not free:
            return None
        c = rng.choice(free)
        c.where = rng.choice([w for w in ('pkg', 'comp') + bp.ISOLATED if w != c.where])
        return ('move', c.kl, c.where)
    return None


def extract(text, component, derived):
    from bridgepoint import ooaofooa
    l = ooaofooa.ModelLoader(load_globals=True)
    l.input(text)
    return l.build_component(component, derived)


def compare(ctx, d, text, component, derived, tag):
    exp = bp.reference_component(d, derived=derived, component=bool(component))
    try:
        c = extract(text, component, derived)
    except Exception as e:
        import traceback
        tb = traceback.extract_tb(e.__traceback__)
        fn = [f.name for f in tb if f.filename.startswith(ctx.root)]
        raise Mismatch('extract/%s@%s' % (type(e).__name__, fn[-1] if fn else '?'),
                       '%s: build_component raised %s: %s' % (tag, type(e).__name__, e))
    got = bp.observed_component(c)
    for part, e, g in zip(('classes', 'identifiers', 'associations'), exp, got):
        if e != g:
            raise Mismatch('mapping/%s' % part, '%s: %s differ: %s' % (tag, part, first_diff(e, g)))
    return c, exp


def first_diff(e, g):
    if isinstance(e, dict):
        for k in sorted(set(e) | set(g)):
            if e.get(k) != g.get(k):
                return '%s: expected %r, extracted %r' % (k, e.get(k), g.get(k))
    only_e = [x for x in e if x not in g]
    only_g = [x for x in g if x not in e]
    return 'expected only %r; extracted only %r' % (only_e[:2], only_g[:2])


def schema_roundtrip(ctx, text, component, derived, exp, tmpdir):
    import xtuml
    from bridgepoint import gen_sql_schema
    src = os.path.join(tmpdir, 'model.xtuml')
    out = os.path.join(tmpdir, 'schema.sql')
    with open(src, 'w', newline='') as f:
        f.write(text)
    argv = sys.argv
    sys.argv = ['gen_sql_schema', '-o', out] + (['-c', component] if component else []) + \
               (['-d'] if derived else []) + [src]
    try:
        gen_sql_schema.main()
    finally:
        sys.argv = argv
    ctx.hit('Schema.roundtrip')
    m = xtuml.load_metamodel(out)
    got = bp.observed_component(m)
    for part, e, g in zip(('classes', 'identifiers', 'associations'), exp, got):
        if e != g:
            raise Mismatch('schema-roundtrip/%s' % part, 'written schema loads back differently: %s'
                           % first_diff(e, g))


def one_diagram(ctx, rng, tmpdir):
    d = random_diagram(rng, extras=rng.random() < 0.5)
    for r in d.rels:
        ctx.hit('Mapping.' + {'Simple': 'simple', 'Linked': 'linked', 'SubSuper': 'subsuper'}[type(r).__name__])
        if isinstance(r, bp.Simple) and r.form.kl == r.part.kl or isinstance(r, bp.Linked) and r.one.kl == r.other.kl:
            ctx.hit('Mapping.reflexive')
    text = bp.build(d).rows.text(rng)
    ctx.hit('Mapping.whole-model')
    c, exp = compare(ctx, d, text, None, False, 'whole model')
    ctx.later('component', (lambda c=c: bp.observed_component(c)), 'component extracted from the model')
    ctx.hit('Mapping.derived-attributes')
    compare(ctx, d, text, None, True, 'whole model with derived attributes')
    ctx.hit('Mapping.component')
    _, exp_c = compare(ctx, d, text, 'Comp', rng.random() < 0.5, 'component')
    which = rng.choice((None, 'Comp'))
    schema_roundtrip(ctx, text, which, False, bp.reference_component(d, False, bool(which)), tmpdir)
    edits = []
    for _ in range(rng.randint(1, 3)):
        e = edit(rng, d)
        if e:
            edits.append(e)
    if edits:
        text2 = bp.build(d).rows.text(rng)
        ctx.hit('Mapping.after-edit')
        compare(ctx, d, text2, None, rng.random() < 0.5, 'after edits %r' % (edits,))
        compare(ctx, d, text2, 'Comp', False, 'component after edits %r' % (edits,))
    return text, bool(d.rels), edits


def run(ctx):
    rng = ctx.rng
    tmpdir = tempfile.mkdtemp(prefix='pyxtuml-verif-c14-')
    try:
        for _ in range(ctx.share(160 if ctx.tier == 'quick' else 8000)):
            try:
                text, nontrivial, edits = one_diagram(ctx, rng, tmpdir)
                ctx.case(text, nontrivial, sample=dict(rows=text[:600], edits=edits))
                ctx.count('diagrams')
            except Mismatch as e:
                ctx.violation(e.key, e.what, case=dict(what=e.what))
        for k, v in STATS.items():
            ctx.hit('Mapping.' + k, v)
        from vf.checks import c14_real
        c14_real.run(ctx, rng, tmpdir, Mismatch)
    finally:
        shutil.rmtree(tmpdir, ignore_errors=True)
