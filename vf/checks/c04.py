'''
C04 - Interpreted OAL computes what the action language defines.

History + executable model: a generated, type-correct, error-free OAL body is
executed by bridgepoint.interpret.run_function on a real domain and by the
reference evaluator of vf.oalsem on the relational shadow; return value and
the complete final state (pools, attribute values, links in both directions)
are compared.
'''
from vf import oalmodel as om
from vf import oalsem
from vf.xmodel import Schema, Rop, Bound, Shadow, build_api

SHARDS = {'quick': 16, 'thorough': 64}
TIMEOUT = {'quick': 1500, 'thorough': 7200}
MUST_HIT = ['Interp.compared', 'Interp.return-value', 'Interp.final-state', 'Feature.loop',
            'Feature.where', 'Feature.relate', 'Feature.foreach', 'Feature.while', 'Feature.delete',
            'Feature.select_related', 'Feature.return', 'Feature.break-continue', 'Feature.elif',
            'Selection.select-related-where-first-fails-later-matches',
            'Selection.select-from-where-first-fails-later-matches', 'Selection.select-where-executed-again', 'Arithmetic.inexact-integer-division',
            'Generator.unary-over-unary', 'Generator.loop-variable-reused', 'Generator.loop-variable-reused-empty-set']
MUST_REACH = ['bridgepoint/interpret.py:run_function', 'bridgepoint/interpret.py:ActionWalker.accept_WhileNode',
              'bridgepoint/interpret.py:ActionWalker.accept_ForEachNode',
              'bridgepoint/interpret.py:ActionWalker.accept_SelectFromWhereNode',
              'bridgepoint/interpret.py:ActionWalker.accept_SelectRelatedWhereNode',
              'bridgepoint/interpret.py:ActionWalker.accept_RelateUsingNode',
              'bridgepoint/interpret.py:ActionWalker.accept_UnrelateNode',
              'bridgepoint/interpret.py:ActionWalker.accept_BinaryOperationNode',
              'bridgepoint/interpret.py:ActionWalker.accept_UnaryOperationNode',
              'bridgepoint/interpret.py:ActionWalker.accept_DeleteNode',
              'bridgepoint/interpret.py:ActionWalker.accept_IfNode',
              'bridgepoint/interpret.py:SymbolTable.install_symbol']
ANCHORS = MUST_REACH
MIN_NONTRIVIAL = {'quick': 300, 'thorough': 300}
RULE = ('programs of 4-40 statements, nesting depth <= 3, generated while executing the reference over a '
        'five-class schema (integer, string, boolean, id attributes; R1 1:M, R2 1:1, R3 reflexive with '
        'phrases, R4 association class) and a random initial population: literals, arithmetic, '
        'comparisons, boolean operators, variables, if/elif/else, while, for each, break/continue, '
        'return, control stop, create/delete, attribute reads and writes, relate/unrelate +-using, '
        'select from +-where, select related chains (incl. two hops through the association class) '
        '+-where, cardinality/empty/not_empty; the whole program is then run cleanly by the reference '
        '(programs on which it signals an error are discarded and counted). Non-trivial = at least one '
        'loop, one where clause, one relate and eight statements; distinct by hash of (population, text).')
ASSUMPTIONS = ['the language rules listed in vf/oalsem.py: integer operands divide to the integer quotient truncated '
               'towards zero; division by zero, modulo with a negative or zero operand, use of '
               'empty or deleted handles, repeated relate and failed unrelate are outside the compared domain',
               'select any / select one yield the first match in model order (the order C09 fixes for the '
               'queries the interpreter is built on)',
               'the loop variable of for each and variables first assigned in an inner block are not read '
               'after that block']
LEVEL_TEXT = ('Random exploration (differential execution against a reference evaluator): every generated '
              'program is run by the real interpreter and by an independent evaluator over a plain '
              'relational state; return value and full final state compared; held on all explored programs.')
LEVEL_NOTE = 'Trusted: vf/oalsem.py reference evaluator and vf/xmodel.py Shadow.'
TECHNIQUE = 'runtime monitoring: reference-model oracle (independent OAL evaluator over a relational shadow state) compared with interpreter result and final model state'

UID = 'UNIQUE_ID'


def schema():
    return Schema(
        [('A', [('Id', UID), ('N', 'INTEGER'), ('S', 'STRING'), ('F', 'BOOLEAN'), ('Next_Id', UID)]),
         ('B', [('Id', UID), ('A_Id', UID), ('N', 'INTEGER'), ('S', 'STRING')]),
         ('C', [('Id', UID), ('A_Id', UID), ('F', 'BOOLEAN'), ('N', 'INTEGER')]),
         ('L', [('A_Id', UID), ('B_Id', UID), ('W', 'INTEGER')]),
         ('D', [('Id', UID), ('S', 'STRING'), ('K', 'INTEGER')])],
        [Rop(1, 'B', ['A_Id'], 'MC', '', 'A', ['Id'], '1C', ''),
         Rop(2, 'C', ['A_Id'], '1C', '', 'A', ['Id'], '1C', ''),
         Rop(3, 'A', ['Next_Id'], '1C', 'precedes', 'A', ['Id'], '1C', 'succeeds'),
         Rop(4, 'L', ['A_Id'], 'MC', '', 'A', ['Id'], '1', ''),
         Rop(4, 'L', ['B_Id'], 'MC', '', 'B', ['Id'], '1', '')])


class Mismatch(Exception):
    def __init__(self, key, what):
        Exception.__init__(self, what)
        self.key = key
        self.what = what


def domain_factory():
    from bridgepoint import ooaofooa
    return ooaofooa.Domain


def populate(rng, sch, bound):
    '''random initial population through the API, mirrored in the shadow'''
    import xtuml
    handles = {}
    big = rng.random() < 0.35
    for kind, attrs in sch.classes:
        ref = set(a.upper() for a in sch.referential(kind))
        handles[kind] = []
        for _ in range(rng.randint(0, 3) if not big else rng.randint(2, 6)):
            vals = {}
            for a, ty in attrs:
                if a.upper() in ref or ty == UID:
                    continue
                vals[a] = {'INTEGER': rng.choice((0, 1, 2, 5, -3)), 'STRING': rng.choice(('', 'a', 'b', 'ab')),
                           'BOOLEAN': rng.random() < 0.5}[ty]
            handles[kind].append(bound.new(kind, **vals))
    sh = bound.shadow
    for _ in range(rng.randint(0, 8) if not big else rng.randint(6, 30)):
        r = rng.choice(sch.rops)
        if not handles[r.src] or not handles[r.tgt]:
            continue
        s, t = rng.choice(handles[r.src]), rng.choice(handles[r.tgt])
        if s == t:
            continue
        if sh.relate(s, t, r.rel, r.src_phrase) == 'ok':
            xtuml.relate(bound.inst[s], bound.inst[t], r.rel, r.src_phrase)
    ids = 0
    for kind, attrs in sch.classes:
        ref = set(a.upper() for a in sch.referential(kind))
        n = len([1 for a, ty in attrs if ty == UID and a.upper() not in ref])
        ids += n * len(handles[kind])
    return handles, ids


def clone_shadow(sh):
    import copy
    o = copy.copy(sh)
    o.extent = dict((k, list(v)) for k, v in sh.extent.items())
    o.kind = dict(sh.kind)
    o.rows = dict((k, dict(v)) for k, v in sh.rows.items())
    o.alive = dict(sh.alive)
    o.pairs = [list(p) for p in sh.pairs]
    return o


def generate(rng, sch, shadow0, ids, nstmts, ret_type, features=None):
    '''-> (statements, expected return value, expected final shadow, ref) or None when discarded'''
    ref = oalsem.Ref(clone_shadow(shadow0), ids)
    g = oalsem.ProgGen(rng, sch, ref, features=features, ret_type=ret_type)
    stmts = g.program(nstmts)
    if not stmts:
        return None
    if ret_type is not None and stmts[-1].sem[0] != 'return':
        e = g.expr(ret_type, 2)
        stmts.append(oalsem.return_(e))
    # the verdict comes from a clean run of the whole program
    clean = oalsem.Ref(clone_shadow(shadow0), ids)
    try:
        ret = clean.run([s.sem for s in stmts])
    except oalsem.RefError:
        return None
    return stmts, ret, clean, g.stats


def features_of(stmts):
    f = set()

    def walk(sem):
        if not isinstance(sem, (tuple, list)):
            return
        if isinstance(sem, tuple) and sem and isinstance(sem[0], str):
            k = sem[0]
            if k in ('while', 'foreach'):
                f.add('loop')
                f.add(k)
            if k in ('select_from', 'select_related'):
                f.add(k)
                if sem[-1] is not None:
                    f.add('where')
            if k == 'relate':
                f.add('relate')
            if k in ('delete', 'return', 'stop'):
                f.add(k)
            if k in ('break', 'continue'):
                f.add('break-continue')
            if k == 'if' and sem[3]:
                f.add('elif')
        for x in sem:
            walk(x)
    for s in stmts:
        walk(s.sem)
    return f


def bind_new_instances(bound, ref_shadow):
    '''map instances created by the program: i-th live instance of a class <-> i-th live handle'''
    for K, ext in ref_shadow.extent.items():
        storage = bound.m.find_metaclass(K).storage
        if len(storage) != len(ext):
            raise Mismatch('final-state/instance-count', '%s: %d instances, expected %d'
                           % (K, len(storage), len(ext)))
        for h, inst in zip(ext, storage):
            known = bound.hid.get(id(inst))
            if known is None:
                bound.inst[h] = inst
                bound.hid[id(inst)] = h
            elif known != h:
                raise Mismatch('final-state/instance-order', '%s: pool order differs' % K)


def run_case(ctx, rng, case_policy='lower', layout='canonical'):
    from bridgepoint import interpret
    from vf.ctx import cpu_budget, BudgetExceeded
    sch = schema()
    m = build_api(sch, factory=domain_factory())
    bound = Bound(sch, m)
    handles, ids = populate(rng, sch, bound)
    ret_type = rng.choice((oalsem.INT, oalsem.STR, oalsem.BOOL, None))
    gen = generate(rng, sch, bound.shadow, ids, rng.randint(4, 40), ret_type)
    if gen is None:
        ctx.count('programs_discarded_reference_error')
        return None
    stmts, exp_ret, clean, stats = gen
    tree = om.body(stmts)
    import random
    text = om.render(tree, rng, layout=layout, case=case_policy, case_rng=random.Random(rng.getrandbits(32)))
    pop_desc = (tuple(sorted((k, tuple(sorted(bound.shadow.rows[h].items(), key=repr))) for h, k in bound.shadow.kind.items())),
                tuple(map(tuple, bound.shadow.pairs)))
    try:
        # (the reference ran the program while generating it: its loops are short, interpretation takes
        # milliseconds; ten CPU seconds is three orders of magnitude above that)
        with cpu_budget(10):
            got_ret = interpret.run_function(m, 'generated', text, {})
    except BudgetExceeded as e:
        NON_TERMINATION[0] += 1
        raise Mismatch('interpreter/non-termination', '%s\n%s' % (e, text))
    except Exception as e:
        import traceback
        tb = traceback.extract_tb(e.__traceback__)
        fn = [f.name for f in tb if f.filename.startswith(ctx.root)]
        raise Mismatch('interpreter/%s@%s' % (type(e).__name__, fn[-1] if fn else '?'),
                       'run_function raised %s: %s\n%s' % (type(e).__name__, e, text))
    ctx.hit('Interp.compared')
    ctx.hit('Interp.return-value')
    if got_ret != exp_ret or (isinstance(exp_ret, bool) != isinstance(got_ret, bool)):
        raise Mismatch('return-value', 'returned %r, the language defines %r\n%s' % (got_ret, exp_ret, text))
    ctx.hit('Interp.final-state')
    bound.shadow = clean.shadow
    bind_new_instances(bound, clean.shadow)
    diffs = bound.compare()
    if diffs:
        raise Mismatch('final-state/' + diffs[0][0], '%s\n%s' % ('; '.join(t for _, t in diffs[:3]), text))
    f = features_of(stmts)
    for x in f:
        ctx.hit('Feature.' + x)
    for x, n in clean.events.items():
        if not x.startswith('_'):
            ctx.hit(('Selection.' if x.startswith('select') else 'Arithmetic.') + x, n)
    for x, n in stats.items():
        if x != 'discarded' and n:
            ctx.hit('Generator.' + x, n)
    nontrivial = 'loop' in f and 'where' in f and 'relate' in f and len(stmts) >= 8
    ctx.case((pop_desc, text), nontrivial, sample=dict(program=text, returns=exp_ret))
    ctx.count('programs')
    ctx.count('statements', len(stmts))
    return text


NON_TERMINATION = [0]


def run(ctx):
    rng = ctx.rng
    if ctx.params.get('replay'):
        print(ctx.params['replay']['what'])
        return
    for _ in range(ctx.share(3200 if ctx.tier == 'quick' else 150000)):
        try:
            run_case(ctx, rng)
        except Mismatch as e:
            ctx.violation(e.key, e.what, case=dict(text=e.what))
        if NON_TERMINATION[0] >= 5:
            # every further program that does not end costs another budget; five reports say what there is to say
            ctx.count('shard_stopped_after_five_programs_that_did_not_end')
            break
