'''
C16 - Reflexive sorting yields the succession order and terminates.

Oracle (direct): every member exactly once, each chain contiguous, beginning
with the member without partner across the phrase and following the opposite
phrase; a ring once around from the set's first member. Termination: a
counting wrapper around xtuml.meta.navigate_one cuts the call after 16n+64
navigations (logical step budget) and a CPU-time budget backs it up.
'''
import itertools

from vf.xmodel import Schema, Rop, build_api, build_loader

SHARDS = {'quick': 16, 'thorough': 32}
TIMEOUT = {'quick': 900, 'thorough': 5400}
MUST_HIT = ['SortOracle.earlier-result-sorted-after-edits', 'SortOracle.after-delete-inside-a-chain', 'SortOracle.very-long-chain', 'SortOracle.rejected-calls-in-history', 'SortOracle.same-set-sorted-before-and-after-edits', 'SortOracle.some-whole-chains', 'SortOracle.ring-with-outsiders', 'SortOracle.other-reflexive-associations', 'SortOracle.after-edit-history', 'SortOracle.mixed-subset-termination', 'SortOracle.chains', 'SortOracle.ring', 'StepBudget.guarded-calls', 'SortOracle.subset-termination', 'SortOracle.results-changed-by-the-caller', 'SortOracle.empty', 'SortOracle.pairs-related-across-either-phrase']
MUST_REACH = ['xtuml/meta.py:sort_reflexive', 'xtuml/meta.py:sort_reflexive.<locals>.sequence_generator']
ANCHORS = MUST_REACH
MIN_NONTRIVIAL = {'quick': 500, 'thorough': 500}
RULE = ('exhaustive: every arrangement of n <= N instances (N=5 quick, 7 thorough) into a set of '
        'ordered chains (every partition, every order within a chain; labels are creation order, so '
        'every creation order relative to succession occurs), sorted across both phrases, with the '
        'set handed over in creation order and in a rotated order; every ring over n <= N instances '
        'in every cyclic order and every rotation of the set; random sets of up to 300 instances; the class '
        'alternately has only R1 or three reflexive associations (declared in varying order, the other two carrying '
        'unrelated chains, one with the same phrase pair); '
        'arbitrary subsets of chains/rings for termination only, and - exhaustively for n <= 4 (quick) / 5 (thorough) - every population mixing chains and rings with every subset in two orders (termination and membership only). Non-trivial = at least one chain of '
        'two or more members; enumerated arrangements are distinct by construction.')
ASSUMPTIONS = ['the order among different chains in the result is not specified and not compared']
LEVEL_TEXT = ('Bounded-exhaustive over all chain arrangements and rings of up to 7 (quick) / 8 (thorough) '
              'instances for both phrases plus random sets to 300 instances, result compared with the '
              'directly stated succession order, every call under a logical step budget of 16n+64 '
              'navigations; held on all explored sets.')
LEVEL_NOTE = 'Trusted: the direct oracle in vf/checks/c16.py; navigate_one is wrapped for step counting.'
TECHNIQUE = 'runtime monitoring: direct order oracle + step-budget failpoint on navigate_one over exhaustive chain/ring arrangements'


ROPS = {1: lambda: Rop(1, 'P', ['Next_Id'], '1C', 'precedes', 'P', ['Id'], '1C', 'succeeds'),
        # two more reflexive associations of the same class (one with the same phrase pair): they carry
        # other chains and must not influence a sort across R1, wherever they are declared
        2: lambda: Rop(2, 'P', ['Alt_Id'], '1C', 'leads', 'P', ['Id'], '1C', 'follows'),
        3: lambda: Rop(3, 'P', ['Twin_Id'], '1C', 'precedes', 'P', ['Id'], '1C', 'succeeds')}
DECLARATION_ORDERS = ((1,), (1, 2, 3), (2, 1, 3), (3, 2, 1), (1,), (2, 3, 1))
_builds = [0]


def schema(order=(1,)):
    return Schema([('P', [('Id', 'UNIQUE_ID'), ('Next_Id', 'UNIQUE_ID'), ('N', 'INTEGER'),
                          ('Alt_Id', 'UNIQUE_ID'), ('Twin_Id', 'UNIQUE_ID')])],
                  [ROPS[r]() for r in order])


class Mismatch(Exception):
    def __init__(self, key, what):
        Exception.__init__(self, what)
        self.key = key
        self.what = what


class StepBudget(object):
    def __init__(self):
        self.limit = None
        self.steps = 0
        self.guarded = 0

    def install(self):
        import xtuml.meta as meta
        from vf.ctx import BudgetExceeded
        orig = meta.navigate_one
        me = self

        def counting_navigate_one(instance):
            if me.limit is not None:
                me.steps += 1
                if me.steps > me.limit:
                    raise BudgetExceeded('more than %d navigations' % me.limit)
            return orig(instance)

        meta.navigate_one = counting_navigate_one


def arrangements(n):
    '''all sets of ordered chains over range(n); chains listed by ascending first member'''
    items = list(range(n))
    for perm in itertools.permutations(items):
        for cuts in itertools.product((0, 1), repeat=n - 1):
            chains, cur = [], [perm[0]]
            for x, c in zip(perm[1:], cuts):
                if c:
                    chains.append(tuple(cur))
                    cur = [x]
                else:
                    cur.append(x)
            chains.append(tuple(cur))
            if all(chains[i][0] < chains[i + 1][0] for i in range(len(chains) - 1)):
                yield tuple(chains)


def build(n, chains, ring, route):
    import xtuml
    _builds[0] += 1
    order = DECLARATION_ORDERS[_builds[0] % len(DECLARATION_ORDERS)]
    sch = schema(order)
    m = build_api(sch) if route == 'api' else build_loader(sch)
    insts = [m.new('P', N=i) for i in range(n)]
    for chain in chains:
        for a, b in zip(chain, chain[1:]):
            # the same pair is stated from either end: "a precedes b", or "b succeeds a"
            _pairs[0] += 1
            if _pairs[0] % 3 == 2:
                xtuml.relate(insts[b], insts[a], 1, 'succeeds')
                HITS['pairs-related-across-either-phrase'] = HITS.get('pairs-related-across-either-phrase', 0) + 1
            else:
                xtuml.relate(insts[a], insts[b], 1, 'precedes')
        if ring and len(chain) >= 1:
            xtuml.relate(insts[chain[-1]], insts[chain[0]], 1, 'precedes')
    if 2 in order:
        # R2: one chain in reverse creation order; R3: the even and the odd members as two chains
        for i in range(n - 1, 0, -1):
            xtuml.relate(insts[i], insts[i - 1], 2, 'leads')
        for i in range(n - 2):
            xtuml.relate(insts[i], insts[i + 2], 3, 'precedes')
        HITS['other-reflexive-associations'] = HITS.get('other-reflexive-associations', 0) + 1
    return m, insts


HITS = {}
_pairs = [0]


def call_sort(budget, qs, n, phrase, keep=False):
    import xtuml
    from vf.ctx import cpu_budget, BudgetExceeded
    budget.limit = 16 * n + 64
    budget.steps = 0
    budget.guarded += 1
    try:
        with cpu_budget(10 + n // 20):
            res = xtuml.sort_reflexive(qs, 1, phrase)
            out = list(res)
    except BudgetExceeded as e:
        raise Mismatch('non-termination', 'sort_reflexive over %d instances cut off: %s' % (n, e))
    finally:
        budget.limit = None
    if not isinstance(res, xtuml.QuerySet):
        raise Mismatch('result/type', 'returned %s' % type(res).__name__)
    if keep:
        return out, res
    if res is not qs:
        # the result belongs to the caller, who goes on using it: whatever is put into it or taken out of it
        # must not show in any later result
        if out and budget.guarded % 2:
            res.clear()
        else:
            res.add(FOREIGN)
        HITS['results-changed-by-the-caller'] = HITS.get('results-changed-by-the-caller', 0) + 1
    if any(x is FOREIGN for x in out):
        raise Mismatch('result/earlier-result-shows', 'the result holds what the caller had put into an earlier result')
    return out


class Foreign(object):
    def __repr__(self):
        return '<put into an earlier result by the caller>'


FOREIGN = Foreign()


def check_chains(ctx, budget, n, chains, route, order):
    m, insts = build(n, chains, False, route)
    verify_chains(ctx, budget, insts, n, chains, order)


def check_edited(ctx, budget, rng, n, route):
    '''
    The sorted population is reached through an edit history: arrangement A is built, then turned
    into arrangement B by unrelating and relating (chains split, joined, members moved, a ring opened).
    '''
    import xtuml
    def random_chains():
        perm = list(range(n))
        rng.shuffle(perm)
        chains, cur = [], [perm[0]]
        for x in perm[1:]:
            if rng.random() < 0.4:
                chains.append(tuple(cur))
                cur = [x]
            else:
                cur.append(x)
        chains.append(tuple(cur))
        return chains
    a, b = random_chains(), random_chains()
    ring = rng.random() < 0.3
    m, insts = build(n, a, False, route)
    la = set((x, y) for c in a for x, y in zip(c, c[1:]))
    if ring and len(a[0]) > 1:
        xtuml.relate(insts[a[0][-1]], insts[a[0][0]], 1, 'precedes')
        la.add((a[0][-1], a[0][0]))
    lb = set((x, y) for c in b for x, y in zip(c, c[1:]))
    order = list(range(n))
    rng.shuffle(order)
    # the set object that is sorted after the edits has been sorted before them, too
    qs = xtuml.QuerySet([insts[i] for i in order])
    if not ring and rng.random() < 0.6:
        ctx.hit('SortOracle.same-set-sorted-before-and-after-edits')
        verify_chain_set(ctx, budget, insts, n, tuple(a), order, qs)
    # a result of a sort before the edits is kept as it came back; after the edits it is itself the set that is sorted
    earlier = None
    if not ring and rng.random() < 0.5:
        earlier = call_sort(budget, qs, n, rng.choice(('succeeds', 'precedes')), keep=True)[1]
    for (x, y) in sorted(la - lb):
        xtuml.unrelate(insts[x], insts[y], 1, 'precedes')
    for (x, y) in sorted(lb - la):
        xtuml.relate(insts[x], insts[y], 1, 'precedes')
    # ... and the history also holds calls that were rejected (a relate that would give an instance a second
    # partner on one side, an unrelate of a pair that is not linked): they leave the chains as they are
    firsts, seconds = set(x for x, _ in lb), set(y for _, y in lb)
    for _ in range(rng.randint(0, 4)):
        x, y = rng.sample(range(n), 2) if n >= 2 else (0, 0)
        if x == y:
            break
        try:
            if (x, y) in lb:
                continue
            free = x not in firsts and y not in seconds
            if free or rng.random() < 0.5:
                # an unrelate of a pair that is not linked - whether or not either of them has another partner
                if free and rng.random() < 0.5:
                    continue
                phrase = rng.choice(('precedes', 'precedes', 'succeeds'))
                if phrase == 'succeeds' and (y, x) in lb:
                    continue
                xtuml.unrelate(insts[x], insts[y], 1, phrase)
            else:
                xtuml.relate(insts[x], insts[y], 1, 'precedes')
        except (xtuml.RelateException, xtuml.UnrelateException):
            ctx.hit('SortOracle.rejected-calls-in-history')
            continue
        # (an accepted call here is C02's business; the arrangement is no longer the planned one)
        ctx.count('edit_histories_dropped_after_unexpectedly_accepted_call')
        return a, b
    ctx.hit('SortOracle.after-edit-history')
    verify_chains(ctx, budget, insts, n, tuple(b), order, qs)
    if earlier is not None and earlier is not qs:
        ctx.hit('SortOracle.earlier-result-sorted-after-edits')
        pos = dict((id(x), i) for i, x in enumerate(insts))
        verify_chain_set(ctx, budget, insts, n, tuple(b), [pos[id(x)] for x in earlier], earlier)
    if n >= 3 and rng.random() < 0.4:
        # a member is deleted: what is left of its chain are two whole chains (or one, or none)
        x = rng.randrange(n)
        xtuml.delete(insts[x])
        rest = []
        for c in b:
            if x in c:
                i = c.index(x)
                rest.extend([p for p in (tuple(c[:i]), tuple(c[i + 1:])) if p])
                if 0 < i < len(c) - 1:
                    ctx.hit('SortOracle.after-delete-inside-a-chain')
            else:
                rest.append(tuple(c))
        verify_chains(ctx, budget, insts, n, tuple(rest), [i for i in order if i != x])
    return a, b


def verify_chains(ctx, budget, insts, n, chains, order, qs=None):
    verify_chain_set(ctx, budget, insts, n, chains, order, qs)
    if len(chains) >= 2:
        # a set made up of some of the whole chains, while the class holds the other chains too
        ctx.hit('SortOracle.some-whole-chains')
        some = tuple(chains[::2])
        keep = set(x for c in some for x in c)
        verify_chain_set(ctx, budget, insts, n, some, [i for i in order if i in keep])


def verify_chain_set(ctx, budget, insts, n, chains, order, qs=None):
    import xtuml
    idx = dict((id(x), i) for i, x in enumerate(insts))
    members = [insts[i] for i in order]
    if qs is None:
        qs = xtuml.QuerySet(members)     # one set object, sorted across both phrases in turn
    for phrase in ('succeeds', 'precedes'):
        ctx.hit('SortOracle.chains')
        got = [idx[id(x)] for x in call_sort(budget, qs, n, phrase)]
        if sorted(map(id, qs)) != sorted(map(id, members)):
            raise Mismatch('argument-changed', 'sorting across %r changed the members of the set that was handed in: %r -> %r'
                           % (phrase, order, [idx[id(x)] for x in qs]))
        if sorted(got) != sorted(order):
            raise Mismatch('chains/members', 'sorting %r across %r gave %r (not every member exactly once)'
                           % (chains, phrase, got))
        pos = dict((x, p) for p, x in enumerate(got))
        for chain in chains:
            want = list(chain) if phrase == 'succeeds' else list(chain)[::-1]
            start = pos[want[0]]
            if got[start:start + len(want)] != want:
                raise Mismatch('chains/order', 'sorting %r across %r gave %r; chain %r not contiguous in '
                               'succession order' % (chains, phrase, got, want))


def check_ring(ctx, budget, n, ring, route, rot):
    import xtuml
    m, insts = build(n, [ring], True, route)
    if (rot + n) % 2:
        # further instances of the class that are not part of the sorted set: a singleton, and two
        # forming a chain of their own
        ctx.hit('SortOracle.ring-with-outsiders')
        out = [m.new('P', N=100 + i) for i in range(3)]
        xtuml.relate(out[1], out[2], 1, 'precedes')
    idx = dict((id(x), i) for i, x in enumerate(insts))
    order = list(range(n))[rot:] + list(range(n))[:rot]
    members = [insts[i] for i in order]
    first = order[0]
    k = ring.index(first)
    fwd = list(ring[k:] + ring[:k])
    qs = xtuml.QuerySet(members)
    for phrase in ('succeeds', 'precedes'):
        ctx.hit('SortOracle.ring')
        got = [idx[id(x)] for x in call_sort(budget, qs, n, phrase)]
        if sorted(map(id, qs)) != sorted(map(id, members)):
            raise Mismatch('argument-changed', 'sorting a ring across %r changed the members of the set that was handed in' % phrase)
        want = fwd if phrase == 'succeeds' else [fwd[0]] + fwd[1:][::-1]
        if got != want:
            raise Mismatch('ring/order', 'ring %r, set first %d, across %r gave %r, expected %r'
                           % (ring, first, phrase, got, want))


def check_subset(ctx, budget, rng, n, chains, ring, route):
    import xtuml
    m, insts = build(n, chains, ring, route)
    sub = [x for x in insts if rng.random() < 0.6]
    rng.shuffle(sub)
    for phrase in ('succeeds', 'precedes'):
        ctx.hit('SortOracle.subset-termination')
        got = call_sort(budget, xtuml.QuerySet(sub), n, phrase)
        if len(set(map(id, got))) != len(got) or not set(map(id, got)) <= set(map(id, sub)):
            raise Mismatch('subset/members', 'result holds members outside the given set or twice')
    if True:
        ctx.hit('SortOracle.empty')
        for phrase in ('succeeds', 'precedes', 'succeeds'):
            got = call_sort(budget, xtuml.QuerySet(), 0, phrase)
            if got != []:
                raise Mismatch('empty', 'empty set does not sort to an empty result: %r' % (got,))


def mixed_subsets(ctx, budget, n, chains, ring_flags, route):
    '''
    Termination only: a population of chains and rings (every chain may be
    closed to a ring), sorted for every subset of its instances and both
    phrases; the result must stay inside the given set.
    '''
    import xtuml
    m = build_api(schema()) if route == 'api' else build_loader(schema())
    insts = [m.new('P', N=i) for i in range(n)]
    for chain, ring in zip(chains, ring_flags):
        for a, b in zip(chain, chain[1:]):
            xtuml.relate(insts[a], insts[b], 1, 'precedes')
        if ring:
            xtuml.relate(insts[chain[-1]], insts[chain[0]], 1, 'precedes')
    count = 0
    for mask in range(1, 2 ** n):
        sub = [insts[i] for i in range(n) if mask >> i & 1]
        for order in (sub, sub[::-1]):
            for phrase in ('succeeds', 'precedes'):
                ctx.hit('SortOracle.mixed-subset-termination')
                got = call_sort(budget, xtuml.QuerySet(order), n, phrase)
                if len(set(map(id, got))) != len(got) or not set(map(id, got)) <= set(map(id, sub)):
                    raise Mismatch('subset/members', 'result holds members outside the given set or twice')
                count += 1
    return count


def run(ctx):
    rng = ctx.rng
    budget = StepBudget()
    budget.install()
    # populations mixing rings and chains, every subset (termination)
    M = 4 if ctx.tier == 'quick' else 5
    mixed = []
    for n in range(1, M + 1):
        for chains in arrangements(n):
            for flags in itertools.product((False, True), repeat=len(chains)):
                if any(flags):
                    mixed.append((n, chains, flags))
    done = 0
    for j, (n, chains, flags) in enumerate(ctx.chunk(mixed)):
        try:
            done += mixed_subsets(ctx, budget, n, chains, flags, 'loader' if j % 29 == 0 else 'api')
            ctx.case_enum(len(chains) > 1)
        except Mismatch as e:
            ctx.violation(e.key, e.what, case=dict(kind='mixed', n=n, chains=chains, rings=flags))
    ctx.set_exhaustive('ring/chain populations x all subsets (termination)', 'n <= %d' % M, done)
    N = 7 if ctx.tier == 'quick' else 8
    jobs = []
    for n in range(1, N + 1):
        for chains in arrangements(n):
            jobs.append(('chains', n, chains))
        for rest in itertools.permutations(range(1, n)):
            jobs.append(('ring', n, (0,) + rest))
    count = 0
    for j, (kind, n, arr) in enumerate(ctx.chunk(jobs)):
        route = 'loader' if j % 41 == 0 else 'api'
        try:
            if kind == 'chains':
                check_chains(ctx, budget, n, arr, route, list(range(n)))
                rot = 1 + j % max(1, n - 1) if n > 1 else 0
                check_chains(ctx, budget, n, arr, route, list(range(n))[rot:] + list(range(n))[:rot])
                ctx.case_enum(any(len(c) > 1 for c in arr))
                if j % 7 == 0:
                    check_subset(ctx, budget, rng, n, arr, False, route)
            else:
                for rot in range(n):
                    check_ring(ctx, budget, n, arr, route, rot)
                ctx.case_enum(n > 1)
                if j % 3 == 0:
                    check_subset(ctx, budget, rng, n, [arr], True, route)
            count += 1
        except Mismatch as e:
            ctx.violation(e.key, e.what, case=dict(kind=kind, n=n, arrangement=arr, route=route))
    ctx.set_exhaustive('chain arrangements and rings', 'n <= %d instances, both phrases' % N, count)
    if ctx.shard == 0:
        ctx.sample(dict(kind='chains', n=5, arrangement=[[0, 3], [1], [2, 4]],
                        meaning='0 precedes 3; 2 precedes 4; sorted across succeeds and precedes'))
    # populations reached through an edit history
    for i in range(ctx.share(1600 if ctx.tier == 'quick' else 60000)):
        n = rng.randint(2, 7)
        try:
            a, b = check_edited(ctx, budget, rng, n, 'loader' if i % 37 == 0 else 'api')
            ctx.case(('edit', tuple(a), tuple(b)), True)
        except Mismatch as e:
            ctx.violation(e.key, e.what, case=dict(kind='edited', n=n))
    # random larger sets
    for i in range(ctx.share(60 if ctx.tier == 'quick' else 1500)):
        n = rng.randint(8, 300)
        perm = list(range(n))
        rng.shuffle(perm)
        chains, cur = [], [perm[0]]
        p = rng.choice((0.05, 0.2, 0.5))
        for x in perm[1:]:
            if rng.random() < p:
                chains.append(tuple(cur))
                cur = [x]
            else:
                cur.append(x)
        chains.append(tuple(cur))
        order = list(range(n))
        if rng.random() < 0.5:
            rng.shuffle(order)
        try:
            check_chains(ctx, budget, n, tuple(chains), 'api', order)
            if i % 5 == 0:
                check_ring(ctx, budget, n, tuple(perm), 'api', rng.randrange(n))
                check_subset(ctx, budget, rng, n, tuple(chains), False, 'api')
            ctx.case(('rnd', tuple(chains), tuple(order)), True)
            ctx.count('random_sets')
        except Mismatch as e:
            ctx.violation(e.key, e.what, case=dict(kind='random', n=n, arrangement=chains, order=order))
    # one chain / one ring far longer than anything above (a sort must not need one interpreter stack frame, or
    # anything else that runs out, per member)
    if ctx.shard < 2 or ctx.tier == 'thorough':
        n = rng.choice((1500, 2500, 4000))
        perm = list(range(n))
        rng.shuffle(perm)
        order = list(range(n))
        rng.shuffle(order)
        import sys
        limit = sys.getrecursionlimit()
        try:
            ctx.hit('SortOracle.very-long-chain')
            # (the worker runs with a raised recursion limit for its own deep generators; this sort runs under
            # the interpreter's default, as it does for a user)
            sys.setrecursionlimit(1000)
            try:
                check_chains(ctx, budget, n, (tuple(perm),), 'api', order)
                check_ring(ctx, budget, n, tuple(perm), 'api', rng.randrange(n))
            finally:
                sys.setrecursionlimit(limit)
            ctx.case(('long', n, tuple(perm[:8])), True)
        except Mismatch as e:
            ctx.violation(e.key, e.what[:2000], case=dict(kind='long', n=n))
        except RecursionError as e:
            ctx.violation('chains/recursion-limit', 'sorting one chain (or ring) of %d members raised RecursionError' % n,
                          case=dict(kind='long', n=n))
    ctx.hit('StepBudget.guarded-calls', budget.guarded)
    for k, v in HITS.items():
        ctx.hit('SortOracle.' + k, v)
