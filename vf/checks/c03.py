'''
C03 - Loading links exactly the key-matching pairs, independent of input order.

Oracles: (i) the independent join of vf.sqlgen computed on the generated rows
and compared with navigation in both directions; (ii) a canonical form
(multiset of value rows per class, multiset of value-identified links)
compared across statement permutations and partitions into several inputs,
files, directory trees and zip archives; (iii) the same rows created through
the API (new with referential values, referred instances first) and by clone.
'''
import io
import itertools
import re
import os
import shutil
import tempfile
import zipfile

from vf import sqlgen
from vf.xmodel import build_api, Schema, Rop

SHARDS = {'quick': 16, 'thorough': 64}
TIMEOUT = {'quick': 1200, 'thorough': 7200}
MUST_HIT = ['Input.part-without-final-line-break', 'Schema.identifier-referred-to-in-two-attribute-orders', 'Schema.association-number-declared-in-two-separate-runs', 'Input.short-positional-row', 'Join.api-reflexive-pairs', 'Join.api-batch-relate', 'EarlierObject.rechecked', 'Join.loader', 'Canon.permutation', 'Canon.partition-inputs', 'Canon.files',
            'Canon.directory-tree', 'Canon.zip', 'Join.api-new', 'Join.api-clone', 'Canon.inferred-schema',
            'Join.null-key', 'Join.duplicate-key', 'Join.dangling-key', 'Join.multi-attribute-key']
MUST_REACH = ['xtuml/load.py:ModelLoader.populate_connections', 'xtuml/meta.py:Link.compute_lookup_key',
              'xtuml/meta.py:Link.compute_index_key', 'xtuml/meta.py:_is_null',
              'xtuml/meta.py:MetaClass.clone', 'bridgepoint/ooaofooa.py:ModelLoader.filename_input',
              'xtuml/load.py:ModelLoader.populate']
ANCHORS = MUST_REACH
MIN_NONTRIVIAL = {'quick': 500, 'thorough': 500}
RULE = ('random schemas (simple, multi-attribute, reflexive, association-class, subtype and shared-'
        'referential associations, keys of every core type) with populations whose referential and '
        'identifying values come from small pools, so matching, duplicate, dangling and null keys '
        '(0 id, empty string, unset) all occur; statements (schema included) permuted - all n! for '
        'n <= 5 (thorough 6), 24 random permutations otherwise - and partitioned into 1-5 input() calls '
        'and files; ooaofooa populations (S_DT/S_CDT/S_UDT/S_EDT/S_ENUM/S_SYNC/S_SPARM rows) split over '
        'files, nested directories and zip archives through bridgepoint.ModelLoader.filename_input; '
        'schema-less inputs with lexically uniform columns; API creation (new with referential '
        'values, referred first; clone) for populations that respect the multiplicities. Non-trivial = '
        'the join contains at least one link and at least one non-matching referring row; distinct by '
        'hash of (schema, rows).')
ASSUMPTIONS = ['vf.sqlgen.join is the definition of "linked"',
               'instance order follows statement order and is not part of the canonical form',
               'inferred-schema inputs use lexically uniform columns (the first row fixes the type)']
LEVEL_TEXT = ('Random exploration with bounded-exhaustive permutation of small inputs: the loader\'s hashed '
              'join compared with an independent nested-loop join on the generated rows; canonical forms '
              'compared across permutations and across input/file/directory/zip partitions; API creation '
              'and clone compared with the same join; held on everything explored except the listed known '
              'finding.')
LEVEL_NOTE = ('Trusted: vf/sqlgen.py join/canonical form. Known finding K1 (new/clone with referential '
              'values on phrased associations) is matched by mechanism key only.')
TECHNIQUE = 'runtime monitoring: reference-model oracle (independent relational join) + metamorphic comparison across statement permutations and input partitions'


class Mismatch(Exception):
    def __init__(self, key, what, rop=None):
        Exception.__init__(self, what)
        self.key = key
        self.what = what
        self.rop = rop


def loader_for(texts):
    import xtuml
    l = xtuml.ModelLoader()
    for t in texts:
        l.input(t)
    return l


def canon(m, kinds=None):
    '''value-based canonical form: rows per class as sorted lists, links as sorted
    list of (rel, phrase, direction, src row, tgt row)'''
    import xtuml
    rows = {}
    rowof = {}
    for K, mc in m.metaclasses.items():
        if kinds is not None and K not in kinds:
            continue
        lst = []
        for inst in mc.storage:
            r = tuple(sqlgen.norm_value(ty, getattr(inst, a)) for a, ty in mc.attributes)
            rowof[id(inst)] = (K, r)
            lst.append(r)
        rows[K] = sorted(lst, key=repr)
    links = []
    for ass in m.associations:
        sl, tl = ass.source_link, ass.target_link
        src, tgt = sl.to_metaclass, tl.to_metaclass
        if kinds is not None and (src.kind.upper() not in kinds or tgt.kind.upper() not in kinds):
            continue
        for inst in src.storage:
            for other in xtuml.navigate_many(inst).nav(tgt.kind, ass.rel_id, tl.phrase)():
                links.append((ass.rel_id, tl.phrase, 'fwd', rowof[id(inst)], rowof.get(id(other))))
        for inst in tgt.storage:
            for other in xtuml.navigate_many(inst).nav(src.kind, ass.rel_id, sl.phrase)():
                links.append((ass.rel_id, sl.phrase, 'back', rowof.get(id(other)), rowof[id(inst)]))
    return (sorted(((k, tuple((n, t.upper()) for n, t in mc.attributes))
                    for k, mc in m.metaclasses.items() if kinds is None or k in kinds)),
            rows, sorted(links, key=repr))


def observed_links(m, schema):
    '''{rop index: (fwd set, back set)} of (src idx, tgt idx) from navigation'''
    import xtuml
    pos = {}
    for kind in schema.kinds():
        for n, inst in enumerate(m.select_many(kind)):
            pos[id(inst)] = n
    res = {}
    for i, r in enumerate(schema.rops):
        fwd, back = set(), set()
        for inst in m.select_many(r.src):
            for o in xtuml.navigate_many(inst).nav(r.tgt, r.rel, r.src_phrase)():
                fwd.add((pos[id(inst)], pos[id(o)]))
        for inst in m.select_many(r.tgt):
            for o in xtuml.navigate_many(inst).nav(r.src, r.rel, r.tgt_phrase)():
                back.add((pos[id(o)], pos[id(inst)]))
        res[i] = (fwd, back)
    return res


def ambiguous(schema):
    '''two rops with identical (rel, src, tgt, phrases) cannot be told apart by navigation'''
    seen = set()
    for r in schema.rops:
        k = (r.rel, r.src, r.tgt, r.src_phrase, r.tgt_phrase)
        if k in seen:
            return True
        seen.add(k)
        # two formalisations of one rel between the same classes without phrases
    keys = [(r.rel, frozenset((r.src, r.tgt))) for r in schema.rops if not r.src_phrase]
    return len(keys) != len(set(keys))


def check_join(ctx, schema, pop, m, expected, what):
    ctx.hit(what)
    got = observed_links(m, schema)
    for i, r in enumerate(schema.rops):
        fwd, back = got[i]
        if fwd != expected[i] or back != expected[i]:
            missing = sorted(expected[i] - fwd) + sorted(expected[i] - back)
            extra = sorted(fwd - expected[i]) + sorted(back - expected[i])
            kind = 'missing' if missing else 'extra'
            if fwd != back:
                kind = 'asymmetric'
            raise Mismatch('%s/%s-link' % (what, kind),
                           '%s: %s: linked (referring->referred) %r / (back) %r, key join says %r'
                           % (what, r.describe(), sorted(fwd), sorted(back), sorted(expected[i])), rop=r)
    # a linked referring instance reads the referred identifying value
    referential = set((r.src, a) for r in schema.rops for a in r.src_keys)
    for i, r in enumerate(schema.rops):
        srcs = list(m.select_many(r.src))
        for (si, ti) in expected[i]:
            for a, k in zip(r.src_keys, r.tgt_keys):
                if (r.tgt, k) in referential:
                    # a key chain: the referred attribute is itself derived from a link of the referred instance
                    # (and reads as unset where that link is missing), so its row value is not what is read
                    continue
                v = getattr(srcs[si], a)
                if not sqlgen.same_value(v, pop.rows[r.tgt][ti][k]) and len(expected[i]) == len(set(s for s, _ in expected[i])):
                    raise Mismatch('%s/referential-read' % what, '%s.%s of row %d reads %r, referred value %r'
                                   % (r.src, a, si, v, pop.rows[r.tgt][ti][k]), rop=r)


def classify_pop(ctx, schema, pop, expected):
    types = dict(((k, a), ty) for k, attrs in schema.classes for a, ty in attrs)
    nontrivial = False
    for i, r in enumerate(schema.rops):
        if len(r.src_keys) > 1 and expected[i]:
            ctx.hit('Join.multi-attribute-key')
        srcs = set(s for s, _ in expected[i])
        for si, s in enumerate(pop.rows[r.src]):
            if any(sqlgen.is_null(types[(r.src, a)], s[a]) for a in r.src_keys):
                ctx.hit('Join.null-key')
            elif si not in srcs:
                ctx.hit('Join.dangling-key')
        tg = [t for _, t in expected[i]]
        if len([s for s, _ in expected[i]]) != len(srcs):
            ctx.hit('Join.duplicate-key')
        if expected[i] and len(srcs) < len(pop.rows[r.src]):
            nontrivial = True
    return nontrivial


def statements_for(schema, pop, rng):
    stmts = sqlgen.schema_statements(schema)
    stmts += [t for _, _, t in sqlgen.insert_statements(schema, pop, rng, named=True, omit_unset=True, short_rows=True)]
    return stmts


def partition(rng, stmts, nparts):
    parts = [[] for _ in range(nparts)]
    for s in stmts:
        part = parts[rng.randrange(nparts)]
        if rng.random() < 0.2:
            # comment lines between the statements (also ones that look like statements)
            part.append(rng.choice(('-- a comment', "-- INSERT INTO X VALUES (1, 'a');", '--', '-- CREATE TABLE Y (Id UNIQUE_ID);')))
        part.append(s)
    out = []
    for p in parts:
        # how a part ends: with a line break, without one, or with a line comment that the end of the text terminates
        end = rng.choice(('\n', '\n', '', '\n-- end', ' -- last line, no line break', '\n--', '  '))
        if end.lstrip().startswith('--') or end == '':
            PART_ENDINGS[0] += 1
        out.append('\n'.join(p) + end)
    return out


PART_ENDINGS = [0]      # parts that end in a comment or a statement without a final line break


def loader_checks(ctx, rng, schema, pop, tmpdir):
    import xtuml
    expected = sqlgen.join(schema, pop)
    nontrivial = classify_pop(ctx, schema, pop, expected)
    # reference: schema first, inserts in row order (positional) - compared with the join
    base = sqlgen.schema_statements(schema) + [t for _, _, t in
                                               sqlgen.insert_statements(schema, pop, omit_unset=True)]
    m0 = loader_for(['\n'.join(base)]).build_metamodel()
    if not ambiguous(schema):
        check_join(ctx, schema, pop, m0, expected, 'Join.loader')
    c0 = canon(m0)
    ctx.later('loaded-model', lambda: canon(m0), 'loaded metamodel')
    # permutations of all statements (rows written with random named/positional/boolean spelling)
    stmts = statements_for(schema, pop, rng)
    limit = 5 if ctx.tier == 'quick' else 6
    if len(stmts) <= limit:
        perms = itertools.permutations(stmts)
        ctx.count('exhaustive_permutation_sets')
    else:
        def gen():
            for _ in range(8 if ctx.tier == 'quick' else 24):
                p = list(stmts)
                rng.shuffle(p)
                yield p
            yield list(reversed(stmts))
        perms = gen()
    for p in perms:
        ctx.hit('Canon.permutation')
        m = loader_for(['\n'.join(p)]).build_metamodel()
        if canon(m) != c0:
            raise Mismatch('order-dependence/permutation',
                           'statement order changes the metamodel: %s' % canon_diff(c0, canon(m)))
    # partitions into several input() calls and into several files
    p = list(stmts)
    rng.shuffle(p)
    parts = partition(rng, p, rng.randint(2, 5))
    ctx.hit('Canon.partition-inputs')
    m = loader_for(parts).build_metamodel()
    if canon(m) != c0:
        raise Mismatch('order-dependence/input-partition', 'splitting over input() calls changes the '
                       'metamodel: %s' % canon_diff(c0, canon(m)))
    ctx.hit('Canon.files')
    names = []
    for n, part in enumerate(parts):
        fn = os.path.join(tmpdir, 'part%d.sql' % n)
        with open(fn, 'w', newline='') as f:
            f.write(part)
        names.append(fn)
    m = xtuml.load_metamodel(names)
    if canon(m) != c0:
        raise Mismatch('order-dependence/files', 'splitting over files changes the metamodel: %s'
                       % canon_diff(c0, canon(m)))
    return expected, nontrivial, m0


def canon_diff(a, b):
    if a[0] != b[0]:
        return 'classes %r vs %r' % (a[0], b[0])
    for k in a[1]:
        if a[1][k] != b[1].get(k):
            return 'rows of %s: %r vs %r' % (k, a[1][k], b[1].get(k))
    la, lb = set(map(repr, a[2])), set(map(repr, b[2]))
    return 'links only in first %r, only in second %r' % (sorted(la - lb)[:3], sorted(lb - la)[:3])


# -- API route ----------------------------------------------------------------

def respects_multiplicity(schema, expected):
    for i, r in enumerate(schema.rops):
        srcs = [s for s, _ in expected[i]]
        tgts = [t for _, t in expected[i]]
        if len(srcs) != len(set(srcs)):
            return False              # a referring row matches two referred rows
        if 'M' not in r.src_card and len(tgts) != len(set(tgts)):
            return False
    return True


def creation_order(schema):
    '''referred classes before referring ones; None when cyclic'''
    deps = dict((k, set()) for k in schema.kinds())
    for r in schema.rops:
        if r.src != r.tgt:
            deps[r.src].add(r.tgt)
    order = []
    while deps:
        ready = [k for k, d in deps.items() if not (d - set(order))]
        if not ready:
            return None
        for k in schema.kinds():
            if k in ready:
                order.append(k)
                del deps[k]
    return order


def api_checks(ctx, rng, schema, pop, expected, m_loaded):
    import xtuml
    order = creation_order(schema)
    if order is None or not respects_multiplicity(schema, expected) or ambiguous(schema):
        ctx.count('api-route-skipped')
        return
    if any(a in ('self', 'kind') for _, attrs in schema.classes for a, _ in attrs):
        ctx.count('api-route-skipped')
        return
    phrased = any(r.src_phrase or r.tgt_phrase for r in schema.rops)
    reflexive = any(r.src == r.tgt for r in schema.rops)
    # expected links for creation in this order: only pairs whose referred row exists already
    def created_before(r, si, ti):
        if r.src != r.tgt:
            return True
        # (a row that refers to itself is its own referred row: it exists when its values are applied)
        return ti <= si
    exp = dict((i, set(p for p in expected[i] if created_before(schema.rops[i], *p)))
               for i in expected)
    def tag(rop=None, exc=None):
        # the known finding K1 is keyed by mechanism: batch relate in new() on an
        # association that carries phrases; everything else keeps the generic key
        if rop is None and exc is not None:
            mt = re.search(r'R(\d+)', str(exc))
            rels = [r for r in schema.rops if mt and r.rel == int(mt.group(1))]
            rop = rels[0] if rels else None
            if isinstance(exc, xtuml.UnknownLinkException) and rop is None:
                return 'links'
        if rop is not None and (rop.src_phrase or rop.tgt_phrase):
            return 'phrased-association'
        return 'links'
    def narrowed(mx, what):
        # K1 is "relates across the opposite phrase": on a reflexive association that turns every pair round
        # and nothing else, so the linked pairs regardless of direction are still the expected ones (a row
        # referring to itself in particular stays linked to itself); anything else is not K1
        got = observed_links(mx, schema)
        for i, r in enumerate(schema.rops):
            if r.src == r.tgt and (r.src_phrase or r.tgt_phrase):
                ctx.hit('Join.api-reflexive-pairs')
                und = lambda ps: set(frozenset(p) for p in ps)
                if not (und(got[i][0]) == und(got[i][1]) == und(exp[i])):
                    raise Mismatch('api-new-referential/links',
                                   'creating the rows through %s: %s: linked (regardless of direction) %r, key join '
                                   'says %r' % (what, r.describe(), sorted(map(sorted, und(got[i][0]) | und(got[i][1]))),
                                                sorted(map(sorted, und(exp[i])))))
    # new(**values)
    ctx.hit('Join.api-new')
    m = build_api(schema, xtuml.IntegerGenerator())
    try:
        for kind in order:
            for row in pop.rows[kind]:
                m.new(kind, **dict(row))
    except xtuml.MetaException as e:
        raise Mismatch('api-new-referential/%s' % tag(exc=e),
                       'creating the rows through new(**values) raised %s: %s' % (type(e).__name__, e))
    try:
        check_join(ctx, schema, pop, m, exp, 'Join.api-new')
    except Mismatch as e:
        narrowed(m, 'new(**values)')
        raise Mismatch('api-new-referential/%s' % tag(rop=e.rop), e.what)
    # clone from the loaded metamodel (in creation order, so the same pairs as above are expected)
    ctx.hit('Join.api-clone')
    m2 = build_api(schema, xtuml.IntegerGenerator())
    try:
        for kind in order:
            for inst in m_loaded.select_many(kind):
                m2.clone(inst)
    except xtuml.MetaException as e:
        raise Mismatch('api-clone-referential/%s' % tag(exc=e), 'cloning raised %s: %s' % (type(e).__name__, e))
    try:
        check_join(ctx, schema, pop, m2, exp, 'Join.api-clone')
    except Mismatch as e:
        narrowed(m2, 'clone()')
        raise Mismatch('api-clone-referential/%s' % tag(rop=e.rop), e.what)


def batch_checks(ctx, schema, pop, expected):
    '''
    The rows created through the API while their referential attributes are still ordinary attributes holding
    the row values, the associations defined afterwards and linked with Association.batch_relate() (the API's
    way of linking by key values), then formalized: the whole key join is expected, whatever the creation
    order, multiplicity and phrases (no direction has to be resolved from a phrase on this route).
    '''
    import xtuml
    if any(a in ('self', 'kind') for _, attrs in schema.classes for a, _ in attrs):
        return
    ctx.hit('Join.api-batch-relate')
    m = xtuml.MetaModel(xtuml.IntegerGenerator())
    for kind, attrs in schema.classes:
        m.define_class(kind, list(attrs))
    for kind, name, attrs in schema.uniques:
        m.define_unique_identifier(kind, name, *attrs)
    for kind, attrs in schema.classes:
        for row in pop.rows[kind]:
            m.new(kind, **dict(row))
    asses = []
    for r in schema.rops:
        asses.append(m.define_association(r.rel, r.src, list(r.src_keys), 'M' in r.src_card, 'C' in r.src_card,
                                          r.src_phrase, r.tgt, list(r.tgt_keys), 'M' in r.tgt_card,
                                          'C' in r.tgt_card, r.tgt_phrase))
    for ass in asses:
        ass.batch_relate()
    for ass in asses:
        ass.formalize()
    try:
        check_join(ctx, schema, pop, m, expected, 'Join.api-batch-relate')
    except Mismatch as e:
        raise Mismatch('api-batch-relate/%s' % e.key.split('/')[-1], e.what)


def known_witness(ctx):
    '''
    K1, replayed deterministically on every run so that the KNOWN-FINDING line
    appears exactly while the defect exists: the association class of
    tests/test_xtuml/test_phrase.py created through new() with referential values.
    '''
    import xtuml
    sch = Schema([('Class', [('ID', 'UNIQUE_ID')]),
                  ('Assoc', [('one_side_ID', 'UNIQUE_ID'), ('other_side_ID', 'UNIQUE_ID')])],
                 [Rop(1, 'Assoc', ['one_side_ID'], 'MC', 'one', 'Class', ['ID'], '1', 'other'),
                  Rop(1, 'Assoc', ['other_side_ID'], 'MC', 'other', 'Class', ['ID'], '1', 'one')])
    pop = sqlgen.Population(sch)
    pop.rows['Class'] = [dict(ID=1), dict(ID=2)]
    pop.rows['Assoc'] = [dict(one_side_ID=1, other_side_ID=2)]
    expected = sqlgen.join(sch, pop)
    m0 = loader_for(['\n'.join(sqlgen.schema_statements(sch) +
                               [t for _, _, t in sqlgen.insert_statements(sch, pop)])]).build_metamodel()
    check_join(ctx, sch, pop, m0, expected, 'Join.loader')
    try:
        api_checks(ctx, ctx.rng, sch, pop, expected, m0)
    except Mismatch as e:
        ctx.violation(e.key, e.what, case=dict(witness='K1', schema=sch.describe(), rows=pop.rows))


# -- bridgepoint partitions -----------------------------------------------------

BP_KINDS = ['S_DT', 'S_CDT', 'S_UDT', 'S_EDT', 'S_ENUM', 'S_SYNC', 'S_SPARM']


def bp_rows(rng, mm):
    pools = {'UNIQUE_ID': [0, 1, 2, 3, 4], 'INTEGER': [0, 1, 2], 'STRING': ['', 'a', "b'", 'x\ny', 'c\r\nd'],
             'BOOLEAN': [True, False], 'REAL': [0.0, 1.5]}
    stmts = []
    for kind in BP_KINDS:
        mc = mm.find_metaclass(kind)
        for _ in range(rng.randint(0, 4)):
            vals = [sqlgen.sql_value(ty, rng.choice(pools[ty.upper()])) for _, ty in mc.attributes]
            stmts.append('INSERT INTO %s VALUES (%s);' % (kind, ', '.join(vals)))
    return stmts


def bp_checks(ctx, rng, tmpdir):
    from bridgepoint import ooaofooa
    base = ooaofooa.ModelLoader(load_globals=False)
    mm = base.build_metamodel()
    stmts = bp_rows(rng, mm)
    if not stmts:
        return False
    kinds = set(BP_KINDS)
    ref = ooaofooa.ModelLoader(load_globals=False)
    ref.input('\n'.join(stmts))
    c0 = canon(ref.build_metamodel(), kinds)
    p = list(stmts)
    rng.shuffle(p)
    parts = partition(rng, p, rng.randint(2, 5))
    root = tempfile.mkdtemp(dir=tmpdir)
    # nested directory tree, plus decoys that must be ignored (not *.xtuml)
    paths = []
    same_names = rng.random() < 0.5
    for n, part in enumerate(parts):
        sub = ['d%d' % rng.randint(0, 2) for _ in range(rng.randint(0, 3))]
        if same_names:
            # the BridgePoint layout <package>/<package>.xtuml: equal file names in different directories
            sub.append('pkg%d' % n)
        d = os.path.join(root, *sub)
        os.makedirs(d, exist_ok=True)
        fn = os.path.join(d, ('types.xtuml' if n % 2 else 'model.xtuml') if same_names else 'm%d.xtuml' % n)
        with open(fn, 'w', newline='') as f:
            f.write(part)
        paths.append(fn)
    with open(os.path.join(root, 'decoy.sql'), 'w') as f:
        f.write("INSERT INTO S_EDT VALUES (\"00000000-0000-0000-0000-00000000007b\");\n")
    ctx.hit('Canon.directory-tree')
    l = ooaofooa.ModelLoader(load_globals=False)
    l.filename_input(root)
    c = canon(l.build_metamodel(), kinds)
    if c != c0:
        raise Mismatch('order-dependence/directory-tree', 'directory tree input differs: %s' % canon_diff(c0, c))
    ctx.hit('Canon.files')
    l = ooaofooa.ModelLoader(load_globals=False)
    for fn in paths:
        l.filename_input(fn)
    c = canon(l.build_metamodel(), kinds)
    if c != c0:
        raise Mismatch('order-dependence/files', 'single file inputs differ: %s' % canon_diff(c0, c))
    ctx.hit('Canon.zip')
    zn = os.path.join(tmpdir, 'model%d.zip' % rng.randrange(10 ** 9))
    with zipfile.ZipFile(zn, 'w') as z:
        for n, part in enumerate(parts):
            z.writestr('/'.join(['z%d' % rng.randint(0, 2) for _ in range(rng.randint(0, 2))] +
                                (['q%d' % n, 'part.xtuml'] if same_names else ['p%d.xtuml' % n])),
                       part.encode('utf-8'))
        z.writestr('readme.txt', 'INSERT INTO S_EDT VALUES ("00000000-0000-0000-0000-00000000007b");\n')
    l = ooaofooa.ModelLoader(load_globals=False)
    l.filename_input(zn)
    c = canon(l.build_metamodel(), kinds)
    os.remove(zn)
    shutil.rmtree(root, ignore_errors=True)
    if c != c0:
        raise Mismatch('order-dependence/zip', 'zip archive input differs: %s' % canon_diff(c0, c))
    return bool(c0[2])


def inferred_checks(ctx, rng):
    '''schema-less inserts with lexically uniform columns: order independence'''
    ncols = rng.randint(1, 4)
    tys = [rng.choice(('INTEGER', 'STRING', 'REAL', 'UNIQUE_ID', 'BOOLEAN')) for _ in range(ncols)]
    stmts = []
    for kind in ('Ka', 'Kb'):
        for _ in range(rng.randint(1, 4)):
            vals = []
            for ty in tys:
                v = sqlgen.random_value(rng, ty)
                if ty == 'BOOLEAN':
                    vals.append('TRUE' if v else 'FALSE')
                elif ty == 'INTEGER':
                    vals.append(str(abs(v)))       # uniform lexical class: digits
                elif ty == 'REAL':
                    vals.append('%.6f' % abs(v))
                else:
                    vals.append(sqlgen.sql_value(ty, v))
            stmts.append('INSERT INTO %s VALUES (%s);' % (kind, ', '.join(vals)))
    ctx.hit('Canon.inferred-schema')
    c0 = canon(loader_for(['\n'.join(stmts)]).build_metamodel())
    for _ in range(4):
        p = list(stmts)
        rng.shuffle(p)
        c = canon(loader_for(partition(rng, p, rng.randint(1, 3))).build_metamodel())
        if c != c0:
            raise Mismatch('order-dependence/inferred-schema', 'schema-less input depends on order: %s'
                           % canon_diff(c0, c))


def run(ctx):
    rng = ctx.rng
    tmpdir = tempfile.mkdtemp(prefix='pyxtuml-verif-c03-')
    try:
        if ctx.shard == 0:
            known_witness(ctx)
        n = ctx.share(6000 if ctx.tier == 'quick' else 96000)
        for i in range(n):
            small = i % 3 == 0
            schema = sqlgen.random_schema(rng, hostile_names=(i % 5 == 0),
                                          max_classes=2 if small else 4, max_attrs=2 if small else 4)
            if not schema.rops and i % 4:
                continue
            pop = sqlgen.hostile_population(rng, schema, max_inst=1 if small else 5)
            # a row without any set value cannot be written as a named insert: give it the nulls
            for kind, attrs in schema.classes:
                for row in pop.rows[kind]:
                    if all(row[a] is None for a, _ in attrs):
                        for a, ty in attrs:
                            row[a] = sqlgen.null_of(ty)
            case = dict(schema=schema.describe(), rows=pop.rows)
            try:
                expected, nontrivial, m0 = loader_checks(ctx, rng, schema, pop, tmpdir)
                batch_checks(ctx, schema, pop, expected)
                if sqlgen.chained(schema):
                    # a key chain: an instance created through the API cannot hold a dangling referential value
                    # (it is derived from the link), so instances referring to that attribute find nothing to
                    # match - the rows are not "the same rows" any more; compared for loading only
                    ctx.count('api_comparison_skipped_key_chain')
                else:
                    api_checks(ctx, rng, schema, pop, expected, m0)
                ctx.case((schema.sql(), repr(pop.rows)), nontrivial,
                         sample=dict(schema=schema.sql(), rows=pop.rows,
                                     join=dict((k, sorted(v)) for k, v in expected.items())))
                ctx.count('populations')
            except Mismatch as e:
                ctx.violation(e.key, e.what, case=case)
        for i in range(ctx.share(48 if ctx.tier == 'quick' else 1500)):
            try:
                nt = bp_checks(ctx, rng, tmpdir)
                ctx.count('bridgepoint_partitions')
                ctx.case(('bp', ctx.shard, i), nt)
            except Mismatch as e:
                ctx.violation(e.key, e.what, case=dict(part='bridgepoint'))
        for i in range(ctx.share(160 if ctx.tier == 'quick' else 5000)):
            try:
                inferred_checks(ctx, rng)
            except Mismatch as e:
                ctx.violation(e.key, e.what, case=dict(part='inferred'))
        ctx.hit('Input.short-positional-row', sqlgen.SHORT_ROWS[0])
        ctx.hit('Input.part-without-final-line-break', PART_ENDINGS[0])
        for k, v in sqlgen.SHAPES.items():
            ctx.hit('Schema.' + k, v)
    finally:
        shutil.rmtree(tmpdir, ignore_errors=True)
