'''
C11 - The consistency check reports exactly the violations present.

Oracle: counts computed on the generated rows and the independently computed
link sets (vf.sqlgen.join, then updated by the events of an API history):
association violations = #(instance, association end) whose partner count is
outside the end's range; identifier violations = #null identifying values +
#instances repeating an earlier instance's identifier; restrictions by
association number / class; subtype count; CLI return values and real process
exit statuses.
'''
import os
import re
import shutil
import subprocess
import sys
import tempfile

from vf import sqlgen
from vf.xmodel import Schema, Rop

SHARDS = {'quick': 16, 'thorough': 64}
TIMEOUT = {'quick': 1500, 'thorough': 7200}
MUST_HIT = ['Route.rows-created-before-the-associations', 'Count.subtype-supertype-with-two-subtypes', 'Schema.association-number-declared-in-two-separate-runs', 'EarlierObject.rechecked', 'Count.association', 'Count.uniqueness', 'Count.is_consistent', 'Count.restricted-rel',
            'Count.restricted-kind', 'Count.subtype', 'Cli.main-return', 'Cli.process-exit-status',
            'Cli.exit-status-at-multiple-of-256', 'Count.subtype-after-history', 'Cli.bridgepoint-main', 'Cli.bridgepoint-all-associations-all-classes', 'Cli.bridgepoint-r-k',
            'Cli.bridgepoint-all-associations-k', 'Cli.bridgepoint-r-all-classes', 'Count.null-lowercase-unique_id', 'Count.nonzero-association',
            'Count.nonzero-uniqueness', 'Count.consistent-model']
MUST_REACH = ['xtuml/consistency_check.py:check_link_integrity',
              'xtuml/consistency_check.py:check_association_integrity',
              'xtuml/consistency_check.py:check_uniqueness_constraint',
              'xtuml/consistency_check.py:check_subtype_integrity',
              'xtuml/consistency_check.py:main', 'bridgepoint/consistency_check.py:main',
              'xtuml/meta.py:MetaModel.is_consistent']
ANCHORS = MUST_REACH
MIN_NONTRIVIAL = {'quick': 500, 'thorough': 500}
RULE = ('random schemas (all association shapes, every referred key covered by a unique identifier, '
        '0-3 further identifiers, type names in any spelling) with populations from small value pools '
        '(duplicate, dangling, null keys; over- and under-populated ends), loaded through the loader '
        'and then changed by API histories (new, unrelate, delete); counts compared for the whole model, '
        'for every single association number and class, for random -r/-k subsets through main(), and '
        'for 1 in 40 models through the real command-line processes (xtuml and bridgepoint). '
        'Non-trivial = at least one violation is present; distinct by hash of (schema, rows, history).')
ASSUMPTIONS = ['identifying attributes = attributes of a unique identifier (every referred key of an '
               'association is given one); empty strings are not generated for identifying attributes',
               'a null identifying value is counted once per (instance, attribute)']
LEVEL_TEXT = ('Random exploration: exact violation counts of the real checker compared with counts computed '
              'independently from the generated rows and link sets, including option filters and process '
              'exit statuses; held on all explored models.')
LEVEL_NOTE = 'Trusted: the counting oracle in vf/checks/c11.py and vf/sqlgen.join.'
TECHNIQUE = 'runtime monitoring: reference-model oracle (independent violation count) compared with check_* results, main() return values and process exit statuses'


class Mismatch(Exception):
    def __init__(self, key, what):
        Exception.__init__(self, what)
        self.key = key
        self.what = what


class State(object):
    '''rows (with a live flag) and link sets, updated by events'''

    def __init__(self, schema, pop, links):
        self.schema = schema
        self.rows = dict((k, [dict(r) for r in v]) for k, v in pop.rows.items())
        self.live = dict((k, [True] * len(v)) for k, v in pop.rows.items())
        self.links = dict((i, set(p)) for i, p in links.items())
        self.types = dict(((k, a), ty) for k, attrs in schema.classes for a, ty in attrs)

    def alive(self, kind):
        return [i for i, l in enumerate(self.live[kind]) if l]

    def read(self, kind, i, attr, depth=0):
        '''value of an attribute as an instance shows it (referential: through the link)'''
        rops = [(n, r) for n, r in enumerate(self.schema.rops) if r.src == kind and attr in r.src_keys]
        if not rops:
            return self.rows[kind][i][attr]
        # the association defined last wins, earlier ones are the fall-back
        for n, r in reversed(rops):
            partners = sorted(t for (s, t) in self.links[n] if s == i)
            if partners and depth < 6:
                k = r.tgt_keys[r.src_keys.index(attr)]
                return self.read(r.tgt, partners[0], k, depth + 1)
        return None

    def identifying(self, kind):
        res = []
        for k, name, attrs in self.schema.uniques:
            if k == kind:
                for a in attrs:
                    if a not in res:
                        res.append(a)
        return res

    def association_violations(self, rel=None):
        n = 0
        for i, r in enumerate(self.schema.rops):
            if rel is not None and r.rel != rel:
                continue
            for t in self.alive(r.tgt):
                c = len([1 for (s, tt) in self.links[i] if tt == t])
                if (c < 1 and 'C' not in r.src_card) or (c > 1 and 'M' not in r.src_card):
                    n += 1
            for s in self.alive(r.src):
                c = len([1 for (ss, t) in self.links[i] if ss == s])
                if (c < 1 and 'C' not in r.tgt_card) or (c > 1 and 'M' not in r.tgt_card):
                    n += 1
        return n

    def uniqueness_violations(self, kind=None):
        n = 0
        nulls = 0
        for k, attrs in self.schema.classes:
            if kind is not None and k.upper() != kind.upper():
                continue
            ident = self.identifying(k)
            seen = dict((name, set()) for kk, name, _ in self.schema.uniques if kk == k)
            for i in self.alive(k):
                for a in ident:
                    v = self.read(k, i, a)
                    if v is None or (self.types[(k, a)].upper() == 'UNIQUE_ID' and v == 0):
                        n += 1
                        nulls += 1
                for kk, name, idattrs in self.schema.uniques:
                    if kk != k:
                        continue
                    key = tuple(canon_value(self.read(k, i, a)) for a in idattrs)
                    # the identifier is a set of named values
                    key = frozenset(zip(idattrs, key))
                    if key in seen[name]:
                        n += 1
                    seen[name].add(key)
        return n, nulls


def canon_value(v):
    # python equality across bool/int/float is what a dictionary key uses
    return v


def make_schema(rng):
    schema = sqlgen.random_schema(rng, hostile_names=rng.random() < 0.3, max_classes=4, max_attrs=3)
    uniques = list(schema.uniques)
    # identifier names must be unique per class; every referred key gets an identifier
    names = {}
    out = []
    for k, name, attrs in uniques:
        names.setdefault(k, set())
        if name in names[k]:
            continue
        names[k].add(name)
        out.append((k, name, attrs))
    for r in schema.rops:
        n = len([1 for k, _, _ in out if k == r.tgt]) + 1
        while 'I%d' % n in names.get(r.tgt, set()):
            n += 1
        names.setdefault(r.tgt, set()).add('I%d' % n)
        out.append((r.tgt, 'I%d' % n, list(r.tgt_keys)))
    schema.uniques = out
    return schema


def make_population(rng, schema):
    pop = sqlgen.hostile_population(rng, schema, max_inst=5)
    ident = set((k, a) for k, _, attrs in schema.uniques for a in attrs)
    for kind, attrs in schema.classes:
        for row in pop.rows[kind]:
            if all(row[a] is None for a, _ in attrs):
                for a, ty in attrs:
                    row[a] = sqlgen.null_of(ty)
            for a, ty in attrs:
                if (kind, a) in ident and ty.upper() == 'STRING' and row[a] == '':
                    row[a] = 'k'
                if ty.upper() == 'REAL' and row[a] is not None:
                    row[a] = float('%.6f' % row[a])      # what the text format carries
    return pop


def load(schema, pop):
    import xtuml
    l = xtuml.ModelLoader()
    text = '\n'.join(sqlgen.schema_statements(schema) +
                     [t for _, _, t in sqlgen.insert_statements(schema, pop, omit_unset=True)])
    l.input(text)
    return l.build_metamodel(), text


def load_batch(schema, pop):
    '''
    The same model reached through the API the way Association.batch_relate() is meant to be used: the rows are
    created while their referential attributes are still ordinary attributes holding the row values (unset = None,
    as the loader leaves a column that is not named), the associations are defined afterwards, linked by key values
    and formalized.
    '''
    import xtuml
    m = xtuml.MetaModel(xtuml.IntegerGenerator())
    for kind, attrs in schema.classes:
        m.define_class(kind, list(attrs))
    for kind, name, attrs in schema.uniques:
        m.define_unique_identifier(kind, name, *attrs)
    for kind, attrs in schema.classes:
        for row in pop.rows[kind]:
            inst = m.new(kind)
            for a, _ in attrs:
                setattr(inst, a, row[a])
    asses = []
    for r in schema.rops:
        asses.append(m.define_association(r.rel, r.src, list(r.src_keys), 'M' in r.src_card, 'C' in r.src_card,
                                          r.src_phrase, r.tgt, list(r.tgt_keys), 'M' in r.tgt_card,
                                          'C' in r.tgt_card, r.tgt_phrase))
    for ass in asses:
        ass.batch_relate()
    for ass in asses:
        ass.formalize()
    return m


def compare_counts(ctx, m, st, tag):
    import xtuml
    ctx.hit('Count.association')
    exp_a = st.association_violations()
    got_a = xtuml.check_association_integrity(m)
    if got_a != exp_a:
        raise Mismatch('association-count/%s' % ('under' if got_a < exp_a else 'over'),
                       '%s: check_association_integrity reports %d, present %d' % (tag, got_a, exp_a))
    ctx.hit('Count.uniqueness')
    exp_u, nulls = st.uniqueness_violations()
    got_u = xtuml.check_uniqueness_constraint(m)
    if got_u != exp_u:
        raise Mismatch('uniqueness-count/%s' % ('under' if got_u < exp_u else 'over'),
                       '%s: check_uniqueness_constraint reports %d, present %d (%d null values)'
                       % (tag, got_u, exp_u, nulls))
    ctx.hit('Count.is_consistent')
    if m.is_consistent() != (exp_a == 0 and exp_u == 0):
        raise Mismatch('is_consistent', '%s: is_consistent() is %s with %d association and %d identifier '
                       'violations' % (tag, m.is_consistent(), exp_a, exp_u))
    for rel in sorted(set(r.rel for r in st.schema.rops)):
        ctx.hit('Count.restricted-rel')
        e = st.association_violations(rel)
        for arg in (rel, 'R%d' % rel):
            g = xtuml.check_association_integrity(m, arg)
            if g != e:
                raise Mismatch('association-count/restricted', '%s: restricted to %r reports %d, present %d'
                               % (tag, arg, g, e))
    for kind, _ in st.schema.classes:
        ctx.hit('Count.restricted-kind')
        e, _ = st.uniqueness_violations(kind)
        # class names are case-insensitive: the restriction means the same class under every spelling
        for spelled in (kind, kind.swapcase(), kind.upper(), kind.lower()):
            g = xtuml.check_uniqueness_constraint(m, spelled)
            if g != e:
                raise Mismatch('uniqueness-count/restricted', '%s: restricted to %s (declared as %s) reports %d, present %d'
                               % (tag, spelled, kind, g, e))
    if exp_a:
        ctx.hit('Count.nonzero-association')
    if exp_u:
        ctx.hit('Count.nonzero-uniqueness')
    if not exp_a and not exp_u:
        ctx.hit('Count.consistent-model')
    if any(ty == 'unique_id' for _, attrs in st.schema.classes for _, ty in attrs) and nulls:
        ctx.hit('Count.null-lowercase-unique_id')
    return exp_a, exp_u


def subtype_check(ctx, rng):
    import xtuml
    sch = Schema([('Sup', [('Id', 'UNIQUE_ID')]), ('S1', [('Id', 'UNIQUE_ID')]), ('S2', [('Id', 'UNIQUE_ID')])],
                 [Rop(7, 'S1', ['Id'], '1C', '', 'Sup', ['Id'], '1', ''),
                  Rop(7, 'S2', ['Id'], '1C', '', 'Sup', ['Id'], '1', '')])
    pop = sqlgen.Population(sch)
    n = rng.randint(0, 6)
    pop.rows['Sup'] = [dict(Id=i + 1) for i in range(n)]
    lacking = 0
    both = set()
    for i in range(n):
        k = rng.random()
        if k < 0.4:
            pop.rows['S1'].append(dict(Id=i + 1))
        elif k < 0.7:
            pop.rows['S2'].append(dict(Id=i + 1))
        elif k < 0.8:
            # instances of two subtype classes refer to it: it does not lack a subtype (that it has one too many is
            # what the association check reports)
            pop.rows['S1'].append(dict(Id=i + 1))
            pop.rows['S2'].append(dict(Id=i + 1))
            both.add(i + 1)
            ctx.hit('Count.subtype-supertype-with-two-subtypes')
        else:
            lacking += 1
    order = list(sch.classes)
    m, _ = load(sch, pop)
    ctx.hit('Count.subtype')
    for arg in (7, 'R7'):
        got = xtuml.check_subtype_integrity(m, rng.choice(('Sup', 'SUP', 'sup')), arg)
        if got != lacking:
            raise Mismatch('subtype-count', 'check_subtype_integrity reports %d, %d supertype instances '
                           'lack a subtype' % (got, lacking))
    # ... and after an API history: subtypes unrelated, deleted, added, migrated
    sups = dict((x.Id, x) for x in m.select_many('Sup') if x.Id not in both)
    sub_of = {}
    for kind in ('S1', 'S2'):
        for x in m.select_many(kind):
            if x.Id not in both:
                sub_of[x.Id] = x
    log = []
    for _ in range(rng.randint(0, 6)):
        if not sups:
            break
        i = rng.choice(sorted(sups))
        op = rng.choice(('unrelate', 'delete', 'add', 'migrate'))
        if op in ('unrelate', 'delete', 'migrate') and i in sub_of:
            if op == 'delete':
                xtuml.delete(sub_of.pop(i))
            else:
                xtuml.unrelate(sub_of.pop(i), sups[i], 7)
            if op == 'migrate':
                nw = m.new(rng.choice(('S1', 'S2')))
                xtuml.relate(nw, sups[i], 7)
                sub_of[i] = nw
        elif op == 'add' and i not in sub_of:
            nw = m.new(rng.choice(('S1', 'S2')))
            xtuml.relate(nw, sups[i], 7)
            sub_of[i] = nw
        else:
            continue
        log.append((op, i))
        ctx.hit('Count.subtype-after-history')
        want = len([1 for j in sups if j not in sub_of])
        got = xtuml.check_subtype_integrity(m, 'Sup', rng.choice((7, 'R7')))
        if got != want:
            raise Mismatch('subtype-count', 'after the history %r check_subtype_integrity reports %d, %d supertype '
                           'instances lack a subtype' % (log, got, want))
    return lacking


def cli_checks(ctx, rng, schema, pop, st, text, tmpdir, process):
    from xtuml import consistency_check as cc
    path = os.path.join(tmpdir, 'model%d.sql' % rng.randrange(10 ** 9))
    with open(path, 'w', newline='') as f:
        f.write(text)
    rels = sorted(set(r.rel for r in schema.rops))
    kinds = [k for k, _ in schema.classes]
    sub_r = [r for r in rels if rng.random() < 0.5]
    sub_k = [k for k in kinds if rng.random() < 0.4]
    args = []
    for r in sub_r:
        args += [rng.choice(('-r', '-R')), str(r)]
    for k in sub_k:
        args += ['-k', rng.choice((k, k, k.swapcase(), k.upper(), k.lower()))]
    exp = (sum(st.association_violations(r) for r in sub_r) if sub_r else st.association_violations())
    exp += (sum(st.uniqueness_violations(k)[0] for k in sub_k) if sub_k else st.uniqueness_violations()[0])
    ctx.hit('Cli.main-return')
    got = cc.main(args + ['-v', path] if rng.random() < 0.3 else args + [path])
    if got != exp:
        raise Mismatch('cli/main-return', 'main(%r) returned %r, %d violations present in that part'
                       % (args, got, exp))
    if process:
        ctx.hit('Cli.process-exit-status')
        env = dict(os.environ, PYTHONPATH=ctx.root)
        boot = ("import sys; sys.meta_path[:] = [f for f in sys.meta_path if 'editable' not in "
                "(getattr(f, '__module__', '') or '')]; sys.path.insert(0, %r); import runpy; "
                "sys.argv = ['consistency_check'] + %r; runpy.run_module('xtuml.consistency_check', "
                "run_name='__main__')" % (ctx.root, args + [path]))
        p = subprocess.run([sys.executable, '-c', boot], env=env, capture_output=True, timeout=120)
        if (p.returncode != 0) != (exp > 0):
            raise Mismatch('cli/exit-status', 'python -m xtuml.consistency_check %r exited %d with %d '
                           'violations present: %s' % (args, p.returncode, exp, p.stderr[-300:]))
    os.remove(path)


# -- bridgepoint command line ---------------------------------------------------

def bp_schema():
    '''the ooaofooa schema parsed independently from bridgepoint/schema.py's SQL text'''
    from bridgepoint import schema as bps
    classes = []
    for m in re.finditer(r'CREATE TABLE (\w+)\s*\((.*?)\);', bps.classes, re.S):
        attrs = [tuple(a.split()) for a in m.group(2).replace('\n', ' ').split(',') if a.strip()]
        classes.append((m.group(1), attrs))
    rops = []
    for m in re.finditer(r"CREATE ROP REF_ID R(\d+)\s+FROM\s+(\w+)\s+(\w+)\s*\(([^)]*)\)(?:\s+PHRASE\s+'([^']*)')?"
                         r"\s+TO\s+(\w+)\s+(\w+)\s*\(([^)]*)\)(?:\s+PHRASE\s+'([^']*)')?\s*;", bps.associations):
        rel, sc, s, sk, sp, tc, t, tk, tp = m.groups()
        rops.append(Rop(int(rel), s, [x.strip() for x in sk.split(',')], sc, sp or '',
                        t, [x.strip() for x in tk.split(',')], tc, tp or ''))
    uniques = []
    for m in re.finditer(r'CREATE UNIQUE INDEX (\w+) ON (\w+)\s*\(([^)]*)\);', bps.indices):
        uniques.append((m.group(2), m.group(1), [x.strip() for x in m.group(3).split(',')]))
    return Schema(classes, rops, uniques)


BP_KINDS = ['S_DT', 'S_CDT', 'S_UDT', 'S_EDT', 'S_ENUM']


def bp_cli(ctx, rng, full, tmpdir, process):
    from bridgepoint import consistency_check as bcc
    kinds = set(BP_KINDS)
    sub = Schema([c for c in full.classes if c[0] in kinds],
                 [r for r in full.rops if r.src in kinds or r.tgt in kinds],
                 [u for u in full.uniques if u[0] in kinds])
    # rows only in the chosen classes; ends that reach outside have no partners there
    pop = sqlgen.Population(Schema(full.classes, [], []))
    pools = {'UNIQUE_ID': [0, 1, 2, 3], 'INTEGER': [0, 1, 2], 'STRING': ['a', 'b'],
             'BOOLEAN': [True, False], 'REAL': [0.0, 1.5]}
    for k, attrs in sub.classes:
        for _ in range(rng.randint(0, 3)):
            pop.rows[k].append(dict((a, rng.choice(pools[ty.upper()])) for a, ty in attrs))
    scope = Schema(full.classes, sub.rops, sub.uniques)
    st = State(scope, pop, sqlgen.join(scope, pop))
    text = '\n'.join(t for _, _, t in sqlgen.insert_statements(scope, pop)) + '\n'
    path = os.path.join(tmpdir, 'bp%d.xtuml' % rng.randrange(10 ** 9))
    with open(path, 'w', newline='') as f:
        f.write(text)
    rels = sorted(set(r.rel for r in sub.rops))
    # no restriction at all in a third of the cases, otherwise a random subset
    sub_r = [r for r in rels if rng.random() < 0.3] if rng.random() < 0.67 else []
    sub_k = [k for k in BP_KINDS if rng.random() < 0.4] if rng.random() < 0.67 else []
    ctx.hit('Cli.bridgepoint-%s-%s' % ('r' if sub_r else 'all-associations', 'k' if sub_k else 'all-classes'))
    args = []
    for r in sub_r:
        args += ['-r', str(r)]
    for k in sub_k:
        args += ['-k', rng.choice((k, k, k.swapcase(), k.lower()))]
    exp = (sum(st.association_violations(r) for r in sub_r) if sub_r else st.association_violations())
    exp += (sum(st.uniqueness_violations(k)[0] for k in sub_k) if sub_k else st.uniqueness_violations()[0])
    ctx.hit('Cli.bridgepoint-main')
    got = bcc.main(args + [path])
    if got != exp:
        raise Mismatch('cli/bridgepoint-main-return', 'bridgepoint main(%r) returned %r, %d violations '
                       'present in that part' % (args, got, exp))
    if process:
        ctx.hit('Cli.process-exit-status')
        boot = ("import sys; sys.meta_path[:] = [f for f in sys.meta_path if 'editable' not in "
                "(getattr(f, '__module__', '') or '')]; sys.path.insert(0, %r); import runpy; "
                "sys.argv = ['consistency_check'] + %r; runpy.run_module('bridgepoint.consistency_check', "
                "run_name='__main__')" % (ctx.root, args + [path]))
        p = subprocess.run([sys.executable, '-c', boot], capture_output=True, timeout=300)
        if (p.returncode != 0) != (exp > 0):
            raise Mismatch('cli/exit-status', 'python -m bridgepoint.consistency_check %r exited %d with %d '
                           'violations present: %s' % (args, p.returncode, exp, p.stderr[-300:]))
    os.remove(path)
    return exp


def exit_status_boundary(ctx, tmpdir):
    '''models with exactly 256 and 512 violations through the real command line process'''
    for n in (256, 512):
        sch = Schema([('A', [('Id', 'INTEGER')]), ('B', [('Id', 'INTEGER'), ('A_Id', 'INTEGER')])],
                     [Rop(1, 'B', ['A_Id'], 'MC', '', 'A', ['Id'], '1', '')], [])
        pop = sqlgen.Population(sch)
        pop.rows['B'] = [dict(Id=i + 1, A_Id=i + 1) for i in range(n)]      # no A at all: n dangling references
        st = State(sch, pop, sqlgen.join(sch, pop))
        exp = st.association_violations() + st.uniqueness_violations()[0]
        if exp != n:
            raise AssertionError('boundary model has %d violations, wanted %d' % (exp, n))
        m, text = load(sch, pop)
        compare_counts(ctx, m, st, 'boundary')
        path = os.path.join(tmpdir, 'boundary%d.sql' % n)
        with open(path, 'w', newline='') as f:
            f.write(text)
        ctx.hit('Cli.exit-status-at-multiple-of-256')
        boot = ("import sys; sys.meta_path[:] = [f for f in sys.meta_path if 'editable' not in "
                "(getattr(f, '__module__', '') or '')]; sys.path.insert(0, %r); import runpy; "
                "sys.argv = ['consistency_check', %r]; runpy.run_module('xtuml.consistency_check', "
                "run_name='__main__')" % (ctx.root, path))
        p = subprocess.run([sys.executable, '-c', boot], env=dict(os.environ, PYTHONPATH=ctx.root),
                           capture_output=True, timeout=300)
        os.remove(path)
        if p.returncode == 0:
            raise Mismatch('cli/exit-status', 'python -m xtuml.consistency_check exited 0 with %d violations present' % n)


def history(ctx, rng, m, st):
    '''new / unrelate / delete events applied to library and oracle state'''
    import xtuml
    schema = st.schema
    log = []
    for _ in range(rng.randint(0, 8)):
        k = rng.random()
        if k < 0.35 and schema.rops:
            i = rng.randrange(len(schema.rops))
            if not st.links[i]:
                continue
            s, t = rng.choice(sorted(st.links[i]))
            r = schema.rops[i]
            xtuml.unrelate(inst_at(m, st, r.src, s), inst_at(m, st, r.tgt, t), r.rel, r.src_phrase)
            st.links[i].discard((s, t))
            log.append(('unrelate', r.rel, s, t))
        elif k < 0.7:
            kind = rng.choice(schema.kinds())
            live = st.alive(kind)
            if not live:
                continue
            i = rng.choice(live)
            xtuml.delete(inst_at(m, st, kind, i))
            st.live[kind][i] = False
            for n in st.links:
                st.links[n] = set((s, t) for (s, t) in st.links[n]
                                  if not ((schema.rops[n].src == kind and s == i) or
                                          (schema.rops[n].tgt == kind and t == i)))
            log.append(('delete', kind, i))
        else:
            kind = rng.choice(schema.kinds())
            inst = m.new(kind)
            ref = schema.referential(kind)
            row = {}
            for a, ty in schema.attrs(kind):
                row[a] = None if a in ref else inst.__dict__.get(a)
            st.rows[kind].append(row)
            st.live[kind].append(True)
            log.append(('new', kind))
    return log


def inst_at(m, st, kind, i):
    '''the instance created from row i (pool order = row order; deleted rows are skipped)'''
    pos = len([1 for j in range(i) if st.live[kind][j]])
    return m.find_metaclass(kind).storage[pos]


def run(ctx):
    rng = ctx.rng
    tmpdir = tempfile.mkdtemp(prefix='pyxtuml-verif-c11-')
    try:
        n = ctx.share(8000 if ctx.tier == 'quick' else 200000)
        for i in range(n):
            schema = make_schema(rng)
            pop = make_population(rng, schema)
            st = State(schema, pop, sqlgen.join(schema, pop))
            case = dict(schema=schema.describe(), rows=pop.rows)
            try:
                if i % 4 == 1:
                    ctx.hit('Route.rows-created-before-the-associations')
                    m, text = load_batch(schema, pop), None
                    a, u = compare_counts(ctx, m, st, 'built through the API (rows, then associations, batch_relate)')
                else:
                    m, text = load(schema, pop)
                    a, u = compare_counts(ctx, m, st, 'loaded')
                if i % 3 == 0 and text is not None:
                    cli_checks(ctx, rng, schema, pop, st, text, tmpdir, process=(i % 120 == 0))
                log = history(ctx, rng, m, st)
                case['history'] = log
                if log:
                    a2, u2 = compare_counts(ctx, m, st, 'after history')
                    a, u = a + a2, u + u2
                ctx.case((schema.sql(), repr(pop.rows), repr(log)), a + u > 0,
                         sample=dict(schema=schema.sql(), rows=pop.rows, history=log,
                                     association_violations=a, identifier_violations=u))
                ctx.count('models')
                import xtuml
                ctx.later('counts', (lambda m=m: (xtuml.check_association_integrity(m), xtuml.check_uniqueness_constraint(m))),
                          'violation counts of the model')
            except Mismatch as e:
                ctx.violation(e.key, e.what, case=case)
        for i in range(ctx.share(320 if ctx.tier == 'quick' else 8000)):
            try:
                lacking = subtype_check(ctx, rng)
                ctx.case(('subtype', ctx.shard, i), lacking > 0)
            except Mismatch as e:
                ctx.violation(e.key, e.what, case=dict(part='subtype'))
        if ctx.shard == 0:
            try:
                exit_status_boundary(ctx, tmpdir)
                ctx.case(('boundary',), True)
            except Mismatch as e:
                ctx.violation(e.key, e.what, case=dict(part='exit-status-boundary'))
        for k, v in sqlgen.SHAPES.items():
            ctx.hit('Schema.' + k, v)
        full = bp_schema()
        for i in range(ctx.share(48 if ctx.tier == 'quick' else 1600)):
            try:
                exp = bp_cli(ctx, rng, full, tmpdir, process=(i % 3 == 0 and ctx.shard % 4 == 0))
                ctx.case(('bp', ctx.shard, i), exp > 0)
                ctx.count('bridgepoint_cli_models')
            except Mismatch as e:
                ctx.violation(e.key, e.what, case=dict(part='bridgepoint-cli'))
    finally:
        shutil.rmtree(tmpdir, ignore_errors=True)
