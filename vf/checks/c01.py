'''
C01 - Persisted models load back unchanged (schema, values, links).

Oracle: vf.sqlgen.snap - an independent structural extractor using the public
read API only - must be preserved by every serialization route; the second
round text is a fixed point.
'''
import itertools
import os
import shutil
import tempfile

from vf import sqlgen
from vf.xmodel import build_api

SHARDS = {'quick': 16, 'thorough': 64}
TIMEOUT = {'quick': 1200, 'thorough': 7200}
MUST_HIT = ['Population.keys-of-equal-hash-value', 'EarlierObject.rechecked', 'Snap.roundtrip', 'Snap.fixed-point', 'route.serialize_database', 'route.split-texts',
            'route.persist_database', 'route.persist-split', 'route.dispatch', 'route.schema-less',
            'build.schema-first', 'build.instances-first', 'build.formalize-last',
            'Population.self-links', 'Population.permuted-compound-keys', 'Population.zero-valued-key']
MUST_REACH = ['xtuml/persist.py:serialize_value', 'xtuml/persist.py:serialize_instance',
              'xtuml/persist.py:serialize_association', 'xtuml/persist.py:serialize_unique_identifiers',
              'xtuml/persist.py:persist_instances', 'xtuml/persist.py:persist_schema',
              'xtuml/persist.py:persist_unique_identifiers', 'xtuml/persist.py:persist_database',
              'xtuml/persist.py:serialize', 'xtuml/load.py:deserialize_value',
              'xtuml/load.py:guess_type_name', 'xtuml/load.py:ModelLoader.populate_connections',
              'xtuml/load.py:ModelLoader.p_negative_value', 'xtuml/load.py:load_metamodel']
ANCHORS = MUST_REACH
MIN_NONTRIVIAL = {'quick': 300, 'thorough': 300}
RULE = ('random schemas (1-5 classes, 0-5+ attributes of the five core types in any type spelling, '
        'names drawn from SQL keywords, cardinality words and plain identifiers; simple, multi-key, '
        'reflexive-with-phrases, association-class, subtype/supertype and shared-referential '
        'associations with independent multiplicities; 0-3 identifiers per class) with populations '
        'whose referential values resolve, values from the hostile alphabet (quotes, doubled quotes, '
        'comment markers, newlines, NUL, non-ASCII, >64-bit integers, large/tiny/negative reals, 0 and '
        '128-bit ids, unset values), built through the API (new + relate); each sent through all '
        'routes: serialize_database; schema/instances/identifiers texts in all 6 input orders; '
        'persist_database; persist_schema+instances+identifiers via load_metamodel; serialize() '
        'dispatch pieces; schema-less named/positional inserts written by the harness. Non-trivial = '
        'at least one association with a link and one hostile string; distinct by hash of (schema, '
        'population).')
ASSUMPTIONS = ['vf.sqlgen.snap and join are the specification of "the same metamodel"',
               'instance order is compared per class; the order of classes in the text is not',
               'reals compare at the six decimals the format carries; None compares as the type\'s null',
               'names the dialect cannot express (R<digits>) are not generated']
LEVEL_TEXT = ('Random exploration: API-built metamodels over random hostile schemas/populations pushed '
              'through every serialization route and loaded back; an independent structural snapshot '
              '(classes, associations, identifiers, ordered instances, link set from navigation in both '
              'directions) must be preserved and the second-round text must be a fixed point; held on '
              'all explored models.')
LEVEL_NOTE = 'Trusted: vf/sqlgen.py (snap, join, generators); the file routes use a private temp directory.'
TECHNIQUE = 'runtime monitoring: round-trip oracle (independent structural snapshot before/after) over random hostile schemas, populations and all serialization routes'


class Mismatch(Exception):
    def __init__(self, key, what):
        Exception.__init__(self, what)
        self.key = key
        self.what = what


BUILD_ORDERS = ('schema-first', 'schema-first', 'instances-first', 'formalize-last')


def build_model(schema, pop, links, order='schema-first'):
    '''
    API route: new + setattr for the non-referential values, relate for the links. The associations are
    defined and formalized before the instances exist (schema-first), after them (instances-first), or
    defined before and formalized after everything else, as a loader does (formalize-last); in the last two
    the instances are created while their referential attributes are still ordinary attributes.
    '''
    import xtuml
    m = xtuml.MetaModel(xtuml.IntegerGenerator())
    for kind, attrs in schema.classes:
        m.define_class(kind, list(attrs))
    for kind, name, attrs in schema.uniques:
        m.define_unique_identifier(kind, name, *attrs)

    def associations(formalize):
        res = []
        for r in schema.rops:
            ass = m.define_association(r.rel, r.src, list(r.src_keys), 'M' in r.src_card,
                                       'C' in r.src_card, r.src_phrase, r.tgt,
                                       list(r.tgt_keys), 'M' in r.tgt_card,
                                       'C' in r.tgt_card, r.tgt_phrase)
            if formalize:
                ass.formalize()
            res.append(ass)
        return res
    asses = None
    if order == 'schema-first':
        associations(True)
    elif order == 'formalize-last':
        asses = associations(False)
    insts = {}
    referential = set((r.src, a) for r in schema.rops for a in r.src_keys)
    for kind, attrs in schema.classes:
        insts[kind] = []
        for row in pop.rows[kind]:
            inst = m.new(kind)
            for a, ty in attrs:
                if (kind, a) not in referential:
                    setattr(inst, a, row[a])
            insts[kind].append(inst)
    if order == 'instances-first':
        associations(True)
    for i, r in enumerate(schema.rops):
        for si, ti in links.get(i, []):
            xtuml.relate(insts[r.src][si], insts[r.tgt][ti], r.rel, r.src_phrase)
    if asses:
        for ass in asses:
            ass.formalize()
    return m


def load_texts(texts):
    import xtuml
    l = xtuml.ModelLoader()
    for t in texts:
        l.input(t)
    return l.build_metamodel(xtuml.IntegerGenerator())


def expect_same(ctx, route, before, m2):
    ctx.hit('Snap.roundtrip')
    after = sqlgen.snap(m2)
    diffs = sqlgen.snap_diff(before, after)
    if diffs:
        raise Mismatch('%s/%s' % (route, diffs[0][0]), '%s: %s' % (route, '; '.join(t for _, t in diffs[:2])))


def check_model(ctx, rng, schema, pop, links, tmpdir):
    import xtuml
    order = rng.choice(BUILD_ORDERS)
    ctx.hit('build.' + order)
    m = build_model(schema, pop, links, order)
    before = sqlgen.snap(m)
    # the API-built model itself must show the planned links (sanity of the generator)
    planned = sum(len(v) for v in links.values())
    if len([l for l in before['links'] if l[2] == 'fwd']) != planned:
        raise Mismatch('api-build/links', 'API-built model shows %d links, planned %d'
                       % (len(before['links']) // 2, planned))

    # 1. one database text
    ctx.hit('route.serialize_database')
    text = xtuml.serialize_database(m)
    m2 = load_texts([text])
    expect_same(ctx, 'serialize_database', before, m2)
    # fixed point after one round
    ctx.hit('Snap.fixed-point')
    text2 = xtuml.serialize(m2)
    m3 = load_texts([text2])
    text3 = xtuml.serialize(m3)
    if text2 != text3:
        raise Mismatch('fixed-point/text', 'second-round text differs from the first-round text: %r'
                       % first_difference(text2, text3))
    expect_same(ctx, 'second-round', before, m3)
    ctx.later('loaded-model', lambda: xtuml.serialize(m2), 'metamodel loaded from the serialized text')

    # 2. three texts in every order
    ctx.hit('route.split-texts')
    parts = [xtuml.serialize_schema(m), xtuml.serialize_instances(m), xtuml.serialize_unique_identifiers(m)]
    orders = list(itertools.permutations(parts))
    for order in (orders if ctx.tier == 'thorough' else [orders[rng.randrange(6)], orders[rng.randrange(6)]]):
        expect_same(ctx, 'split-texts', before, load_texts(order))

    # 3. file writing variants
    ctx.hit('route.persist_database')
    p = os.path.join(tmpdir, 'db.sql')
    xtuml.persist_database(m, p)
    expect_same(ctx, 'persist_database', before, xtuml.load_metamodel(p))
    ctx.hit('route.persist-split')
    p1, p2, p3 = (os.path.join(tmpdir, n) for n in ('schema.sql', 'inst.sql', 'ids.sql'))
    xtuml.persist_schema(m, p1)
    xtuml.persist_instances(m, p2)
    xtuml.persist_unique_identifiers(m, p3)
    files = [p1, p2, p3]
    rng.shuffle(files)
    expect_same(ctx, 'persist-split', before, xtuml.load_metamodel(files))

    # 4. serialize() dispatch on the pieces
    ctx.hit('route.dispatch')
    pieces = []
    for mc in m.metaclasses.values():
        pieces.append(xtuml.serialize(mc.clazz))
    for ass in m.associations:
        pieces.append(xtuml.serialize(ass))
    for inst in m.instances:
        pieces.append(xtuml.serialize(inst))
    pieces.append(xtuml.serialize_unique_identifiers(m))
    if xtuml.serialize(m) != text:
        raise Mismatch('dispatch/metamodel', 'serialize(metamodel) differs from serialize_database')
    expect_same(ctx, 'dispatch', before, load_texts([''.join(pieces)]))

    # 5. without explicit CREATE TABLE: the harness writes schema-less inserts, the loader
    #    infers classes; the round trip is then required of that metamodel
    ctx.hit('route.schema-less')
    stmts = [t for _, _, t in sqlgen.insert_statements(schema, pop, None, named=(rng.random() < 0.5))]
    if stmts:
        try:
            m_inf = load_texts(['\n'.join(stmts)])
        except xtuml.ParsingException:
            m_inf = None      # e.g. a class without attributes cannot be inferred... not claimed
            ctx.count('schema-less-not-loadable')
        if m_inf is not None:
            inf_before = sqlgen.snap(m_inf)
            expect_same(ctx, 'schema-less', inf_before, load_texts([xtuml.serialize(m_inf)]))
    return before


def first_difference(a, b):
    for i, (x, y) in enumerate(zip(a, b)):
        if x != y:
            return a[max(0, i - 40):i + 40], b[max(0, i - 40):i + 40]
    return a[-60:], b[-60:]


def nontrivial(schema, pop, links):
    has_link = any(links.get(i) for i in links)
    hostile = any(isinstance(v, str) and (("'" in v) or ('\n' in v) or ('--' in v) or ('\x00' in v))
                  for rows in pop.rows.values() for row in rows for v in row.values())
    return has_link and hostile


def run(ctx):
    rng = ctx.rng
    tmpdir = tempfile.mkdtemp(prefix='pyxtuml-verif-c01-')
    try:
        n = ctx.share(2400 if ctx.tier == 'quick' else 48000)
        big = ctx.tier == 'thorough'
        for i in range(n):
            schema = sqlgen.random_schema(rng, hostile_names=(i % 4 != 0),
                                          max_classes=8 if big and i % 3 == 0 else 5)
            pop, links = sqlgen.resolved_population(rng, schema, max_inst=(40 if big and i % 10 == 0 else 6))
            # the domain: the planned links are exactly what the keys say
            # (an unset value is the null value of its type in the format, and integers,
            # reals and booleans have no null: an unlinked 0/False referential value that
            # equals some referred key would resolve after loading - outside the domain)
            j = sqlgen.join(schema, sqlgen.normalised(schema, pop))
            if any(set(links.get(k, [])) != j[k] for k in j):
                ctx.count('populations_skipped_keys_not_unique')
                continue
            case = dict(schema=schema.describe(), rows=pop.rows, links=links)
            try:
                check_model(ctx, rng, schema, pop, links, tmpdir)
                ctx.case((schema.sql(), repr(pop.rows)), nontrivial(schema, pop, links),
                         sample=dict(schema=schema.sql(), rows=pop.rows, links=links))
                ctx.count('models')
                ctx.count('instances', sum(len(v) for v in pop.rows.values()))
                ctx.count('links', sum(len(v) for v in links.values()))
            except Mismatch as e:
                ctx.violation(e.key, e.what, case=case)
        ctx.hit('Population.self-links', sqlgen.SELF_LINKS[0])
        ctx.hit('Population.permuted-compound-keys', sqlgen.PERMUTED_KEYS[0])
        ctx.hit('Population.keys-of-equal-hash-value', sqlgen.HASH_TWINS[0])
        ctx.hit('Population.zero-valued-key', sqlgen.ZERO_KEYS[0])
        for k, v in sqlgen.SHAPES.items():
            ctx.hit('Schema.' + k, v)
    finally:
        shutil.rmtree(tmpdir, ignore_errors=True)
