'''
C19 - New instances get typed defaults and fresh non-null identifiers.

Monitors: IdFresh (wrapper around the generator's next() logging what was
yielded, and around MetaClass.default_value logging what was defaulted) and a
three-line model of argument application (defaults, then positionals in
attribute order, then keywords).
'''
from vf.xmodel import Schema, Rop, build_api, build_loader

SHARDS = {'quick': 16, 'thorough': 32}
TIMEOUT = {'quick': 900, 'thorough': 5400}
MUST_HIT = ['IdFresh.metamodel-object-dropped', 'IdFresh.second-generator-of-the-same-kind-in-use', 'Schema.attributes-given-as-one-shot-iterable', 'Ambient.IdFresh.ambient', 'Ambient.Suite.tests-passed', 'IdFresh.long-run-ids', 'IdFresh.instance-attribute', 'Generator.user-source-sequence', 'Generator.swapped', 'ArgModel.creation', 'IdFresh.defaulted-id', 'IdFresh.generator-next', 'Generator.peek',
            'Generator.integer-sequence', 'UnknownType.rejected', 'Referential.argument',
            'Schema.association-formalized-after-creations', 'Schema.iterations-between-definition-and-formalization', 'Schema.attribute-replaced',
            'Schema.attribute-added', 'Schema.attribute-removed', 'Generator.drawn-by-for-break',
            'Generator.drawn-by-islice', 'Generator.drawn-by-zip', 'Generator.drawn-by-next(iter())',
            'IdFresh.peeked-id-given-explicitly']
MUST_REACH = ['xtuml/meta.py:MetaClass.default_value', 'xtuml/meta.py:MetaClass.new',
              'xtuml/tools.py:IdGenerator.peek', 'xtuml/tools.py:IdGenerator.next',
              'xtuml/tools.py:UUIDGenerator.readfunc', 'xtuml/tools.py:IntegerGenerator.readfunc']
ANCHORS = MUST_REACH
MIN_NONTRIVIAL = {'quick': 2000, 'thorough': 2000}
RULE = ('random schemas (1-3 classes, 1-7 attributes of the five core types in lower/UPPER/mixed '
        'type spelling, optionally one referential attribute at a random position), built through '
        'the API or the loader with a UUID, integer or user-supplied generator (random injective '
        'non-zero sequence); creation sequences of 5-40 instances with a random positional prefix, '
        'random keyword subset (random spelling) and the rest omitted, interleaved with peek()/next() '
        'on the generator; in three of ten histories the metamodel\'s id_generator is replaced half-way; half of the associations are defined and formalized only after instances exist, and between creations a class is edited now and then (attribute retyped or renamed in place, added, removed). Non-trivial = the creation mixes at least two of positional / keyword / '
        'defaulted attributes; distinct by hash of (schema, arguments).'
        ' Also: creation through class handles after the metamodel object itself was dropped and collected; user generators that are falsy while fresh.')
ASSUMPTIONS = ['freshness is required among the identifiers the generator produced or disclosed through peek() (an id the caller invents may collide with a later default)',
               'user generators yield injective non-zero sequences']
LEVEL_TEXT = ('Random exploration of creation histories over random schemas and three generator kinds; '
              'every created instance compared with the argument-application model, every defaulted id '
              'checked against the generator log (non-null, fresh, the yielded value); held on all '
              'explored creations.')
LEVEL_NOTE = 'Trusted: the argument model and generator log in vf/checks/c19.py.'
TECHNIQUE = 'runtime monitoring: invariant hooks on id generator and default_value + reference model of argument application over random creation histories'

TYPES = ['BOOLEAN', 'INTEGER', 'REAL', 'STRING', 'UNIQUE_ID']
DEFAULT = {'BOOLEAN': False, 'INTEGER': 0, 'REAL': 0.0, 'STRING': ''}


def spell(rng, s):
    k = rng.random()
    if k < 0.4:
        return s
    if k < 0.6:
        return s.lower()
    if k < 0.7:
        return s.capitalize()
    return ''.join(c.upper() if rng.random() < 0.5 else c.lower() for c in s)


class Mismatch(Exception):
    def __init__(self, key, what):
        Exception.__init__(self, what)
        self.key = key
        self.what = what


FALSY = [0]


def make_generator(rng, kind, log):
    import xtuml

    if kind == 'uuid':
        g = xtuml.UUIDGenerator()
    elif kind == 'integer':
        g = xtuml.IntegerGenerator()
    else:
        seq = rng.sample(range(1, 10 ** 6), 400)
        state = [0]

        class UserGenerator(xtuml.IdGenerator):
            def readfunc(self):
                v = seq[state[0]]
                state[0] += 1
                return v
        if rng.random() < 0.4:
            # a generator that is also a journal of what it handed out: its length (and so its truth value) is 0 while
            # fresh - it is the metamodel's generator all the same
            FALSY[0] += 1

            class UserGenerator(UserGenerator):
                def __len__(self):
                    return max(0, state[0] - 1)
        g = UserGenerator()
        g.source, g.drawn = seq, state
    orig_next = g.next

    def logged_next():
        v = orig_next()
        log.append(v)
        return v
    g.next = logged_next
    return g


def run_case(ctx, rng, n_case):
    import xtuml
    log = []          # values yielded by the metamodel's current generator, in order
    gkind = rng.choice(('uuid', 'integer', 'integer', 'user'))
    gen = make_generator(rng, gkind, log)
    swap_at = rng.randint(3, 30) if rng.random() < 0.3 else None
    cur = dict(log=log)
    # schema
    classes = []
    rops = []
    nclasses = rng.randint(1, 3)
    classes.append(('Tgt', [('Id', 'UNIQUE_ID')]))
    for c in range(nclasses):
        attrs = []
        for a in range(rng.randint(1, 7)):
            attrs.append(('a%d' % a if rng.random() < 0.5 else 'Attr_%d' % a, spell(rng, rng.choice(TYPES))))
        kind = 'K%d' % c
        if rng.random() < 0.5:
            pos = rng.randint(0, len(attrs))
            attrs.insert(pos, ('Tgt_Id', spell(rng, 'UNIQUE_ID')))
            rops.append(Rop(c + 1, kind, ['Tgt_Id'], 'MC', '', 'Tgt', ['Id'], '1C', ''))
        classes.append((kind, attrs))
    # some associations are formalized only after instances exist (what every loaded model does: instances
    # first, associations formalized afterwards, further creations by the user after that); until then
    # their key attribute is an ordinary id attribute
    late = [r for r in rops if rng.random() < 0.5]
    rops = [r for r in rops if r not in late]
    sch = Schema(classes, rops)
    route = rng.choice(('api', 'loader'))
    def attr_form(attrs):
        # the attribute list of a class in whatever form a caller has it: a list, a tuple, or something that can be
        # walked only once (zip of names and types, a generator, an iterator)
        attrs = list(attrs)
        k = rng.randrange(6)
        if k >= 3:
            ctx.hit('Schema.attributes-given-as-one-shot-iterable')
        return (attrs, tuple(attrs), list(attrs), zip([a for a, _ in attrs], [t for _, t in attrs]),
                ((a, t) for a, t in attrs), iter(attrs))[k]
    m = build_api(sch, gen, attr_form=attr_form) if route == 'api' else build_loader(sch, gen)
    defaulted = []    # ids handed out as defaults, in order
    instance_ids = set()    # defaulted ids as read from the created instances
    disclosed = set()       # ids the generator disclosed through peek() and the caller then put into the model

    for mc in m.metaclasses.values():
        orig = mc.default_value

        def wrapped(type_name, orig=orig):
            log = cur['log']
            before = len(log)
            v = orig(type_name)
            if type_name.upper() == 'UNIQUE_ID':
                ctx.hit('IdFresh.defaulted-id')
                if len(log) != before + 1 or log[-1] != v:
                    raise Mismatch('id/not-from-generator',
                                   'default id %r is not the value the generator yielded (%r)'
                                   % (v, log[before:]))
                if not v:
                    raise Mismatch('id/null', 'defaulted id is the null id (%r)' % (v,))
                if v in defaulted:
                    raise Mismatch('id/repeated', 'defaulted id %r was handed out before' % (v,))
                defaulted.append(v)
            return v
        mc.default_value = wrapped

    targets = [m.new('Tgt') for _ in range(2)]
    expect_int = 1
    pending = []      # associations defined but not formalized yet
    if gkind == 'integer':
        # the loader consumes no ids for an empty population; Tgt took 1 and 2
        if [t.Id for t in targets] != [1, 2]:
            raise Mismatch('generator/integer-sequence', 'first integer ids are %r' % [t.Id for t in targets])
    for i in range(rng.randint(5, 40)):
        if swap_at is not None and i == swap_at:
            # the metamodel gets another generator (the only way to choose one for a model obtained
            # from load_metamodel): from now on defaults must come from it
            ctx.hit('Generator.swapped')
            log = []                       # the replaced generator keeps its own log
            cur['log'] = log
            gkind = 'uuid' if gkind != 'uuid' else 'user'
            gen = make_generator(rng, gkind, log)
            m.id_generator = gen
        if late and rng.random() < 0.12:
            r = late.pop()
            ctx.hit('Schema.association-formalized-after-creations')
            ass = m.define_association(r.rel, r.src, list(r.src_keys), 'M' in r.src_card, 'C' in r.src_card,
                                       r.src_phrase, r.tgt, list(r.tgt_keys), 'M' in r.tgt_card,
                                       'C' in r.tgt_card, r.tgt_phrase)
            # the association is formalized at once, or only some creations later (the two steps of
            # bridgepoint.ooaofooa.mk_component): until it is, its key attribute stays an ordinary id attribute
            pending.append([0 if rng.random() < 0.5 else rng.randint(1, 6), ass, r])
        for entry in list(pending):
            if entry[0] > 0:
                entry[0] -= 1
                ctx.hit('Schema.iterations-between-definition-and-formalization')
                continue
            pending.remove(entry)
            entry[1].formalize()
            sch.rops.append(entry[2])
            rops.append(entry[2])
        if rng.random() < 0.1:
            # the class is edited between two creations (attribute retyped, renamed, added or removed):
            # every later creation follows the attribute list of that moment
            kind, attrs = rng.choice(classes[1:])
            mc = m.find_metaclass(kind)
            plain = [i for i, (a, ty) in enumerate(attrs) if a != 'Tgt_Id']
            op = rng.choice(('retype', 'retype', 'rename', 'append', 'delete'))
            if op == 'append' or not plain:
                a = 'x%d' % i
                ty = spell(rng, rng.choice(TYPES))
                if rng.random() < 0.5:
                    mc.append_attribute(a, ty)
                    attrs.append((a, ty))
                else:
                    pos = rng.randint(0, len(attrs))
                    mc.insert_attribute(pos, a, ty)
                    attrs.insert(pos, (a, ty))
                ctx.hit('Schema.attribute-added')
            else:
                pos = rng.choice(plain)
                a, ty = attrs[pos]
                if op == 'delete' and len(plain) > 1:
                    mc.delete_attribute(a)
                    del attrs[pos]
                    ctx.hit('Schema.attribute-removed')
                else:
                    mc.delete_attribute(a)
                    if op == 'rename':
                        a = 'r%d' % i
                    else:
                        ty = spell(rng, rng.choice([t for t in TYPES if t != ty.upper()]))
                    mc.insert_attribute(pos, a, ty)
                    attrs[pos] = (a, ty)
                    ctx.hit('Schema.attribute-replaced')
        k = rng.random()
        if k < 0.15:
            ctx.hit('Generator.peek')
            before = len(log)
            p1 = gen.peek()
            p2 = gen.peek()
            how = rng.choice(('next()', 'gen.next()', 'next(iter())', 'for-break', 'islice', 'zip'))
            ctx.hit('Generator.drawn-by-' + how)
            if how == 'next()':
                drawn = [next(gen)]
            elif how == 'gen.next()':
                drawn = [gen.next()]
            elif how == 'next(iter())':
                drawn = [next(iter(gen))]
            elif how == 'for-break':
                drawn = []
                for v in gen:
                    drawn.append(v)
                    if len(drawn) == 2 or rng.random() < 0.5:
                        break
            elif how == 'islice':
                import itertools
                drawn = list(itertools.islice(gen, rng.randint(1, 2)))
            else:
                drawn = [v for _, v in zip(range(rng.randint(1, 2)), gen)]
            if len(log) == before:
                # an iteration that does not go through next() is fine as long as it hands out what next()
                # would have handed out: the values join the sequence of this generator
                log.extend(drawn)
            n = drawn[0]
            if not (p1 == p2 == n) or log[before:] != drawn:
                raise Mismatch('generator/peek-advances', 'peek, peek, %s gave %r %r %r (the generator handed out %r)'
                               % (how, p1, p2, drawn, log[before:]))
            n = drawn[-1]
            if len(set(log)) != len(log):
                raise Mismatch('generator/repeats', 'the generator handed out %r twice (last drawn by %s)'
                               % ([v for v in log if log.count(v) > 1][:1], how))
            if gkind == 'user':
                # a generator drawing from its own source: the values handed out are the source values in
                # order, none skipped (at most one value read ahead) - whatever was peeked in between
                ctx.hit('Generator.user-source-sequence')
                if log != gen.source[:len(log)] or gen.drawn[0] not in (len(log), len(log) + 1):
                    raise Mismatch('generator/peek-advances', 'after %d next() calls (and peeks in between) the '
                                   'user generator has drawn %d source values and handed out %r, the source '
                                   'starts %r' % (len(log), gen.drawn[0], log[-4:], gen.source[max(0, len(log) - 4):len(log)]))
            if gkind == 'integer':
                ctx.hit('Generator.integer-sequence')
                if n != len(log):
                    raise Mismatch('generator/integer-sequence', 'value number %d of the integer generator is %r'
                                   % (len(log), n))
            continue
        kind, attrs = rng.choice(classes[1:])
        ref = set(a for a in sch.referential(kind))
        npos = rng.choice((0, 0, 1, 2, len(attrs), rng.randint(0, len(attrs))))
        args, kwargs, model = [], {}, {}
        tgt = rng.choice(targets)
        for (a, ty) in attrs:
            if a not in ref and ty.upper() != 'UNIQUE_ID':
                model[a] = DEFAULT[ty.upper()]
        disclosed_before = set(disclosed)
        peeked = gen.peek()

        def given(a, ty):
            # an id given explicitly is now and then the one the generator disclosed through peek(): it is in the
            # metamodel from then on, and no later default may repeat it
            if a in ref:
                return tgt.Id
            if ty.upper() == 'UNIQUE_ID' and rng.random() < 0.3:
                ctx.hit('IdFresh.peeked-id-given-explicitly')
                disclosed.add(peeked)
                return peeked
            return value(rng, ty)
        for (a, ty) in attrs[:npos]:
            v = given(a, ty)
            args.append(v)
            model[a] = v
        for (a, ty) in attrs:
            if rng.random() < 0.35:
                v = given(a, ty)
                kwargs[spell(rng, a)] = v
                model[a] = v
        before = len(log)
        inst = m.new(spell(rng, kind), *args, **kwargs)
        ctx.hit('ArgModel.creation')
        new_ids = log[before:]
        for (a, ty) in attrs:
            got = getattr(inst, a)
            if a in ref:
                if a in model:
                    ctx.hit('Referential.argument')
                    rel = [r.rel for r in rops if r.src == kind][0]
                    if got != tgt.Id or xtuml.navigate_one(inst).Tgt[rel]() is not tgt:
                        raise Mismatch('args/referential', '%s.%s given %r reads %r' % (kind, a, tgt.Id, got))
                continue
            if a in model:
                if got != model[a] or type(got) is not type(model[a]):
                    raise Mismatch('args/value', '%s(%r, %r): %s reads %r, expected %r'
                                   % (kind, args, kwargs, a, got, model[a]))
            else:
                # defaulted unique id: from the generator, not null, and never seen before in this
                # metamodel - neither in an earlier instance nor in another attribute of this one
                if got not in new_ids:
                    raise Mismatch('id/not-from-generator', '%s.%s = %r not among the ids generated by '
                                   'this creation %r' % (kind, a, got, new_ids))
                ctx.hit('IdFresh.instance-attribute')
                if not got:
                    raise Mismatch('id/null', '%s.%s defaulted to the null id %r' % (kind, a, got))
                if got in instance_ids:
                    raise Mismatch('id/repeated', '%s.%s defaulted to %r, an id this metamodel already handed out '
                                   '(attributes of the new instance: %r)' % (kind, a, got, attrs))
                if got in disclosed_before:
                    raise Mismatch('id/repeated', '%s.%s defaulted to %r, the id an earlier instance of this metamodel '
                                   'was given explicitly after the generator had disclosed it through peek()'
                                   % (kind, a, got))
                instance_ids.add(got)
        if gkind == 'integer':
            ctx.hit('Generator.integer-sequence')
            if log != list(range(1, len(log) + 1)):
                raise Mismatch('generator/integer-sequence', 'integer generator yielded %r' % log[-5:])
        ctx.hit('IdFresh.generator-next', len(new_ids))
        kinds = (bool(args), bool(kwargs), len(model) < len(attrs) or not (args or kwargs))
        ctx.case((sch.describe()['classes'], kind, repr(args), sorted(map(repr, kwargs.items()))),
                 sum(kinds) >= 2,
                 sample=dict(cls=kind, attributes=attrs, args=args, kwargs=kwargs, generator=gkind))
    # unknown type
    ctx.hit('UnknownType.rejected')
    m.define_class('Odd', [('x', 'INTEGER'), ('y', rng.choice(('FOO', 'int', 'uuid', 'inst_ref<Odd>')))])
    # ... on every attempt, with and without arguments, and without leaving instances behind
    for attempt in range(rng.randint(2, 4)):
        kw = rng.choice(({}, {}, {'x': 3}, {'y': 5}, {'x': 1, 'y': 2}))
        try:
            m.new('Odd', **kw) if kw.get('y') is None or 'x' in kw else m.new('Odd', 7, **kw)
            accepted = True
        except xtuml.MetaException:
            accepted = False
        # every non-referential attribute is given the default of its type before the arguments are applied, so
        # the unknown type is met whatever the arguments are
        if accepted:
            raise Mismatch('unknown-type/accepted', 'attempt number %d to create an instance of a class with an '
                           'attribute of unknown type succeeded (arguments %r)' % (attempt + 1, kw))


def value(rng, ty):
    ty = ty.upper()
    if ty == 'BOOLEAN':
        return rng.random() < 0.5
    if ty == 'INTEGER':
        return rng.choice((0, 1, -5, 2 ** 70, rng.randint(-1000, 1000)))
    if ty == 'REAL':
        return rng.choice((0.0, -1.5, 3.25, 1e20))
    if ty == 'STRING':
        return rng.choice(('', 'x', "it's", 'a b'))
    # an id given explicitly may also be the null id
    return 0 if rng.random() < 0.15 else rng.randint(1, 2 ** 127)


def long_run(ctx, rng):
    '''
    One generator over thousands of draws: "never the null id, never repeats" must hold however many ids a
    metamodel has handed out (a generator that prefetches in blocks, or counts in a fixed width, goes wrong late).
    '''
    import xtuml
    n = rng.choice((700, 1500, 3000)) if ctx.tier == 'quick' else rng.choice((3000, 20000, 70000))
    for gkind in ('uuid', 'default', 'integer'):
        # two metamodels with a generator of the same kind each, used in turn: each has its own sequence
        models = []
        for _ in range(2):
            gen = {'uuid': xtuml.UUIDGenerator, 'integer': xtuml.IntegerGenerator, 'default': lambda: None}[gkind]()
            m = xtuml.MetaModel(gen) if gen is not None else xtuml.MetaModel()
            m.define_class('K', [('Id', 'unique_id'), ('N', 'integer'), ('Other', 'UNIQUE_ID')])
            models.append((m, set()))
        for i in range(n):
            m, seen = models[0] if rng.random() < 0.8 else models[1]
            if m is models[1][0]:
                ctx.hit('IdFresh.second-generator-of-the-same-kind-in-use')
            how = rng.random()
            if how < 0.7:
                inst = m.new('K')
                got = [inst.Id, inst.Other]
            elif how < 0.85:
                got = [m.id_generator.next()]
            else:
                p = m.id_generator.peek()
                got = [next(m.id_generator)]
                if p != got[0]:
                    raise Mismatch('generator/peek-advances', 'draw %d of a %s generator: peek gave %r, next %r'
                                   % (len(seen), gkind, p, got[0]))
            for v in got:
                if not v:
                    raise Mismatch('id/null', 'id number %d handed out by a %s generator is the null id (%r)'
                                   % (len(seen) + 1, gkind, v))
                if v in seen:
                    raise Mismatch('id/repeated', 'id number %d handed out by a %s generator (%r) was handed out '
                                   'before' % (len(seen) + 1, gkind, v))
                seen.add(v)
                if gkind == 'integer' and v != len(seen):
                    raise Mismatch('generator/integer-sequence', 'value number %d of the integer generator is %r'
                                   % (len(seen), v))
        ctx.hit('IdFresh.long-run-ids', len(models[0][1]) + len(models[1][1]))
        ctx.case(('long', gkind, n, ctx.shard), True)


def handles_only(ctx, rng):
    '''
    A caller that keeps the class handles (and the generator) of a metamodel but not the metamodel object itself - a
    helper that defines a schema and returns its classes: creation through the handle still draws every defaulted
    id from that metamodel's generator.
    '''
    import gc
    import xtuml
    for gkind in ('integer', 'uuid', 'user'):
        def define():
            log = []
            gen = make_generator(rng, gkind, log)
            m = xtuml.MetaModel(gen)
            k = m.define_class('K', [('Id', 'unique_id'), ('N', 'integer'), ('S', 'string'), ('B', 'boolean'),
                                     ('R', 'real'), ('Other', 'UNIQUE_ID')])
            if rng.random() < 0.5:
                k.new()
            return k, gen, log
        k, gen, log = define()
        gc.collect()
        seen = set(log)
        for i in range(rng.randint(3, 12)):
            ctx.hit('IdFresh.metamodel-object-dropped')
            n0 = len(log)
            p = gen.peek()
            how = rng.random()
            if how < 0.5:
                inst = k.new()
            elif how < 0.8:
                inst = k.new(N=5, s='x')
            else:
                gc.collect()
                inst = k.new()
            drawn = log[n0:]
            got = [inst.Id, inst.Other]
            if got != drawn or (drawn and drawn[0] != p):
                raise Mismatch('id/not-from-generator', 'creation through a class handle whose metamodel object is no longer '
                               'referenced (%s generator): ids %r, the generator handed out %r (peek said %r)'
                               % (gkind, got, drawn, p))
            for v in got:
                if not v or v in seen:
                    raise Mismatch('id/null' if not v else 'id/repeated', 'creation through a class handle whose metamodel '
                                   'object is no longer referenced (%s generator): defaulted id %r' % (gkind, v))
                seen.add(v)
            vals = (inst.N, inst.S, inst.B, inst.R)
            want = (5, 'x', False, 0.0) if 0.5 <= how < 0.8 else (0, '', False, 0.0)
            if vals != want or type(inst.B) is not bool or type(inst.R) is not float:
                raise Mismatch('defaults/values', 'creation through a class handle: attributes %r, expected %r' % (vals, want))
        ctx.case(('handles-only', gkind, ctx.shard, len(seen)), True)


def run(ctx):
    rng = ctx.rng
    if ctx.shard == ctx.nshards - 1:
        # the ids defaulted while the repository's own tests run (model loading, prebuild, interpretation)
        from vf import ambient
        ambient.report(ctx, ambient.run_suite(ctx, ('ids',)), 'Ambient')
        return
    try:
        long_run(ctx, rng)
    except Mismatch as e:
        ctx.violation(e.key, e.what, case=dict(shard=ctx.shard, case='long-run'))
    for _ in range(20 if ctx.tier == 'quick' else 400):
        try:
            handles_only(ctx, rng)
        except Mismatch as e:
            ctx.violation(e.key, e.what, case=dict(shard=ctx.shard, case='handles-only'))
    for i in range(ctx.share(8000 if ctx.tier == 'quick' else 200000)):
        try:
            run_case(ctx, rng, i)
        except Mismatch as e:
            ctx.violation(e.key, e.what, case=dict(shard=ctx.shard, case=i))
