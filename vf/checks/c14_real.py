'''
C14, second workload: edit scripts at every applicable row of the shipped
BridgePoint sample model, against an independent reading of its rows.
'''
import copy
import os

from vf import bpsynth as bp
from vf import bprows


def run(ctx, rng, tmpdir, Mismatch):
    from vf.checks import c14
    path = os.path.join(ctx.root, 'resources', 'Simple_Model.xtuml')
    if not os.path.exists(path):
        ctx.count('real-model-missing')
        return
    base = bprows.parse(open(path).read())
    sites = bprows.edit_sites(base)
    # the unedited model first (shard 0), then every single edit, then random scripts of 2-4 edits
    jobs = [[]] + [[s] for s in sites]
    for _ in range(40 if ctx.tier == 'quick' else 2000):
        jobs.append(rng.sample(sites, rng.randint(2, 4)))
    for script in ctx.chunk(jobs):
        stmts = copy.deepcopy(base)
        for desc, fn in script:
            fn(stmts)
        text = bprows.render(stmts, rng)
        comp = rng.choice((None, 'Comp'))
        derived = rng.random() < 0.5
        d = bprows.diagram_from_rows(stmts, 'Comp')
        d.component = 'Comp'
        tag = 'Simple_Model with %r' % ([s[0] for s in script],)
        ctx.hit('Mapping.real-model-edit')
        try:
            c14.compare(ctx, d, text, comp, derived, tag)
            ctx.case(('real', tuple(s[0] for s in script), comp, derived), True,
                     sample=dict(model='Simple_Model.xtuml', edits=[s[0] for s in script]))
        except Mismatch as e:
            ctx.violation(e.key, e.what, case=dict(edits=[s[0] for s in script]))
    ctx.set_exhaustive('single edits of Simple_Model.xtuml', 'every applicable row (toggle Mult/Cond, phrase, '
                       'rename, retype, swap neighbours)', len(sites) + 1)
