'''
Scratch build of /repo's *working tree* (DESIGN 2.1).

The PLY tables under /repo are git-ignored build artefacts that are loaded with
optimize=1 (no signature check), and /venv carries an editable install whose
meta-path finder resolves missing submodules back to /repo.  Every check thus
imports pyxtuml from a private copy with freshly generated tables, and asserts
that nothing was imported from anywhere else.
'''
import os
import shutil
import subprocess
import sys
import tempfile

REPO = os.environ.get('VERIF_REPO', '/repo')
PKGS = ('xtuml', 'bridgepoint')
TABS = ('xtuml.__xtuml_lextab', 'xtuml.__xtuml_parsetab',
        'bridgepoint.__oal_lextab', 'bridgepoint.__oal_parsetab')


class BuildError(Exception):
    pass


def make_scratch():
    '''
    Copy the working tree's packages into a fresh directory outside /repo and
    /verif (without parser tables and byte code) and generate the tables there.
    '''
    root = tempfile.mkdtemp(prefix='pyxtuml-verif-')
    for pkg in PKGS:
        src = os.path.join(REPO, pkg)
        if not os.path.isdir(src):
            shutil.rmtree(root, ignore_errors=True)
            raise BuildError('missing package %s' % src)
        subprocess.check_call(['rsync', '-a', '--exclude', '__*tab.py',
                               '--exclude', '__pycache__', '--exclude', '*.pyc',
                               src + '/', os.path.join(root, pkg) + '/'])
    # resources used by some checks (BridgePoint sample models)
    res = os.path.join(REPO, 'tests', 'resources')
    if os.path.isdir(res):
        subprocess.check_call(['rsync', '-a', res + '/',
                               os.path.join(root, 'resources') + '/'])
    # generate tables in a child so the parent stays free of repo imports
    code = ('import sys; sys.path.insert(0, %r); '
            'from vf import build; build.activate(%r, gen=True)'
            % (os.path.dirname(os.path.dirname(os.path.abspath(__file__))), root))
    p = subprocess.run([sys.executable, '-c', code], capture_output=True,
                       text=True, timeout=300)
    if p.returncode != 0:
        shutil.rmtree(root, ignore_errors=True)
        raise BuildError('table generation failed:\n' + p.stdout + p.stderr)
    return root


def activate(root, gen=False):
    '''
    Make the interpreter import pyxtuml from *root* only.
    '''
    sys.meta_path[:] = [f for f in sys.meta_path
                        if 'editable' not in (getattr(f, '__module__', '') or '').lower()
                        and 'editable' not in type(f).__name__.lower()
                        and 'editable' not in getattr(f, '__name__', '').lower()]
    for name in list(sys.modules):
        if name.split('.')[0] in PKGS:
            del sys.modules[name]
    sys.path[:] = [p for p in sys.path
                   if os.path.abspath(p or '.') != os.path.abspath(REPO)]
    sys.path.insert(0, root)
    import logging
    logging.disable(logging.CRITICAL)
    import xtuml
    import bridgepoint
    from bridgepoint import oal
    xtuml.ModelLoader().input('')
    oal.parse('')
    import importlib
    mods = [xtuml, bridgepoint] + [importlib.import_module(t) for t in TABS]
    for m in mods:
        f = os.path.abspath(m.__file__)
        if not f.startswith(os.path.abspath(root) + os.sep):
            raise BuildError('%s imported from %s, not from the scratch build'
                             % (m.__name__, f))
    return root


def remove(root):
    if root and os.path.basename(root).startswith('pyxtuml-verif-'):
        shutil.rmtree(root, ignore_errors=True)
