'''
Semantic OAL layer: a reference evaluator over the plain relational state of
vf.xmodel.Shadow, and a generator of well-formed, name-resolved, type-correct
programs that executes the reference while generating, so that every kept
statement is error-free under the language rules spelled out below.

Language rules used (only where OAL is unambiguous; everything else makes the
reference raise RefError and the statement is not generated):
  integers: + - * ; / only when exact; % only on non-negative operands
  strings: + == != ; booleans: and or not == != ; integer comparisons
  cardinality / empty / not_empty on instance handles and sets
  select any/many from instances = first / all in creation order
  where clauses bind selected; select related = duplicate-free encounter-order
  composition of the links, first element for one/any; sets are snapshots
  for each iterates the snapshot; variables live in the block that first
  assigns them; break/continue/return/control stop; create gives typed
  defaults; relate/unrelate (+-using); delete removes the instance's links
Errors (discarded, never compared): use of an empty or deleted instance
handle, relate that breaches a multiplicity or repeats a link, unrelate of an
unlinked pair, inexact division, negative modulo, division by zero.
'''
import copy

from vf import oalmodel as om
from vf.xmodel import Outcome

INT, STR, BOOL, ID = 'int', 'str', 'bool', 'id'
REAL = 'real'        # local variables and literals only (the schemas of C04 have no real attributes)
TYPE_OF = {'INTEGER': INT, 'STRING': STR, 'BOOLEAN': BOOL, 'UNIQUE_ID': ID, 'REAL': 'real'}


class RefError(Exception):
    pass


class _Return(Exception):
    pass


class _Stop(Exception):
    pass


class _Break(Exception):
    pass


class _Continue(Exception):
    pass


class Ref(object):
    '''reference evaluator state'''

    def __init__(self, shadow, id_counter=0, params=None, self_handle=None, funcs=None):
        self.shadow = shadow
        self.blocks = [dict()]
        self.id_counter = id_counter
        self.params = params or {}
        self.self_handle = self_handle
        self.funcs = funcs             # callable(kind, name, kwargs, ref) for C15
        self.return_value = None
        self.steps = 0
        self.budget = 20000
        self.events = {}               # what the executed selections looked like (shared by forks)

    def fork(self):
        other = copy.copy(self)
        other.shadow = copy.copy(self.shadow)
        sh = self.shadow
        other.shadow.extent = dict((k, list(v)) for k, v in sh.extent.items())
        other.shadow.kind = dict(sh.kind)
        other.shadow.rows = dict((k, dict(v)) for k, v in sh.rows.items())
        other.shadow.alive = dict(sh.alive)
        other.shadow.pairs = [list(p) for p in sh.pairs]
        other.blocks = [dict(b) for b in self.blocks]
        return other

    # -- variables ---------------------------------------------------------
    def lookup(self, name):
        for b in reversed(self.blocks):
            if name in b:
                return b[name]
        raise RefError('variable %s is not in scope' % name)

    def has(self, name):
        return any(name in b for b in self.blocks)

    def store(self, name, value):
        for b in self.blocks:
            if name in b:
                b[name] = value
                return
        self.blocks[-1][name] = value

    def tick(self):
        self.steps += 1
        if self.steps > self.budget:
            raise RefError('step budget')

    # -- expressions ---------------------------------------------------------
    def live(self, h):
        if h is None:
            raise RefError('empty instance handle')
        if not self.shadow.alive.get(h[1]):
            raise RefError('deleted instance')
        return h[1]

    def ev(self, e):
        k = e[0]
        if k in ('int', 'str', 'bool', 'real'):
            return e[1]
        if k == 'var':
            return self.lookup(e[1])
        if k == 'param':
            if e[1] not in self.params:
                raise RefError('no parameter %s' % e[1])
            return self.params[e[1]]
        if k == 'self':
            if self.self_handle is None:
                raise RefError('no self')
            return self.self_handle
        if k == 'selected':
            return self.lookup('selected')
        if k == 'attr':
            h = self.live(self.ev(e[1]))
            vals = self.shadow.read(h, e[2])
            if len(vals) != 1:
                raise RefError('ambiguous referential read')
            return next(iter(vals))
        if k == 'un':
            v = self.ev(e[2])
            op = e[1]
            if op == 'not':
                return not v
            if op == '-':
                return -v
            if op == '+':
                return +v
            if op == 'cardinality':
                return 0 if v is None else (len(v) if isinstance(v, list) else 1)
            if op == 'empty':
                return v is None or (isinstance(v, list) and not v)
            if op == 'not_empty':
                return not (v is None or (isinstance(v, list) and not v))
        if k == 'bin':
            op = e[1]
            l = self.ev(e[2])
            r = self.ev(e[3])
            if op in ('+', '-', '*'):
                v = l + r if op == '+' else (l - r if op == '-' else l * r)
                # resource bound of the generator (not a language rule): keep values small
                if (isinstance(v, str) and len(v) > 2000) or (isinstance(v, (int, float)) and abs(v) > 10 ** 18):
                    raise RefError('value too large')
                return v
            if op == '/':
                if r == 0:
                    raise RefError('division by zero')
                if isinstance(l, float) or isinstance(r, float):
                    return l / r
                # integer operands: the integer quotient, truncated towards zero
                q = abs(l) // abs(r)
                if l % r != 0:
                    self.events['inexact-integer-division'] = self.events.get('inexact-integer-division', 0) + 1
                return q if (l < 0) == (r < 0) else -q
            if op == '%':
                if r <= 0 or l < 0:
                    raise RefError('modulo outside the defined domain')
                return l % r
            if op == '<':
                return l < r
            if op == '<=':
                return l <= r
            if op == '>':
                return l > r
            if op == '>=':
                return l >= r
            if op == '==':
                return l == r
            if op == '!=':
                return l != r
            if op == 'and':
                return bool(l and r)
            if op == 'or':
                return bool(l or r)
        if k == 'call':
            if self.funcs is None:
                raise RefError('no callable elements')
            kwargs = dict((n, self.ev(x)) for n, x in e[3])
            target = self.ev(e[4]) if len(e) > 4 and e[4] is not None else None
            return self.funcs(e[1], e[2], kwargs, self, target)
        raise AssertionError(e)

    # -- statements -------------------------------------------------------------
    def new_instance(self, kind):
        sh = self.shadow
        ref = set(a.upper() for a in sh.schema.referential(kind))
        row = {}
        for a, ty in sh.schema.attrs(kind):
            if a.upper() in ref:
                continue
            t = ty.upper()
            if t == 'UNIQUE_ID':
                self.id_counter += 1
                row[a] = self.id_counter
            else:
                row[a] = {'INTEGER': 0, 'STRING': '', 'BOOLEAN': False, 'REAL': 0.0}[t]
        return sh.new(kind, row)

    def block(self, stmts):
        self.blocks.append(dict())
        try:
            for s in stmts:
                self.ex(s)
        finally:
            self.blocks.pop()

    def note_reexecution(self, s, where):
        if where is None:
            return
        seen = self.events.setdefault('_seen', {})
        seen[id(s)] = seen.get(id(s), 0) + 1
        if seen[id(s)] == 2:
            self.events['select-where-executed-again'] = self.events.get('select-where-executed-again', 0) + 1

    def navigate_steps(self, v, steps):
        sh = self.shadow
        if isinstance(v, list):
            cur = [self.live(x) for x in v]
        else:
            cur = [self.live(v)]
        for (kind, rel, phrase) in steps:
            nxt = []
            for h in cur:
                got = sh.navigate(h, kind, rel, phrase or '')
                if got is None:
                    raise RefError('no such link')
                for x in got:
                    if x not in nxt:
                        nxt.append(x)
            cur = nxt
        return cur

    def candidates(self, hs, where, first_only=False, what='select'):
        out = []
        for i, h in enumerate(hs):
            if first_only and out:
                break        # select any/one stops at the first match (where clauses may have effects)
            if first_only and where is not None and i == len(hs) - 1 and len(hs) > 1:
                self.events[what + '-where-examined-all'] = self.events.get(what + '-where-examined-all', 0) + 1
            if where is None:
                out.append(h)
                continue
            self.blocks.append(dict(selected=('inst', h)))
            try:
                ok = self.ev(where)
            finally:
                self.blocks.pop()
            if ok:
                out.append(h)
                if first_only and i > 0:
                    k = what + '-where-first-fails-later-matches'
                    self.events[k] = self.events.get(k, 0) + 1
        return out

    def ex(self, s):
        self.tick()
        k = s[0]
        sh = self.shadow
        if k == 'assign':
            v = self.ev(s[2])
            t = s[1]
            if t[0] == 'var':
                self.store(t[1], v)
            else:
                h = self.live(self.ev(t[1]))
                sh.rows[h][sh.attr_name(sh.kind[h], t[2])] = v
        elif k == 'create':
            h = self.new_instance(s[2])
            if s[1] is not None:
                self.store(s[1], ('inst', h))
        elif k == 'delete':
            h = self.live(self.lookup(s[1]) if s[1] != 'self' else self.self_handle)
            sh.delete(h)
        elif k == 'relate':
            _, a, b, rel, phrase, using, un = s
            ha = self.live(self.lookup(a) if a != 'self' else self.self_handle)
            hb = self.live(self.lookup(b) if b != 'self' else self.self_handle)
            ph = phrase or ''
            fn = sh.unrelate if un else sh.relate
            pairs = [(ha, hb)]
            if using is not None:
                hu = self.live(self.lookup(using))
                pairs = [(ha, hu), (hu, hb)]
            # all or nothing: check on a copy first
            trial = self.fork().shadow
            for x, y in pairs:
                if not un:
                    res = trial.resolve(x, y, rel, ph)
                    if len(set(res)) != 1:
                        raise RefError('link not determined')
                    i, s_, t_ = res[0]
                    if (s_, t_) in trial.pairs[i]:
                        raise RefError('already related')
                out = (trial.unrelate if un else trial.relate)(x, y, rel, ph)
                if out != Outcome.OK:
                    raise RefError('relate/unrelate rejected: %s' % out)
            for x, y in pairs:
                fn(x, y, rel, ph)
        elif k == 'select_from':
            _, card, var, kind, where = s
            self.note_reexecution(s, where)
            c = self.candidates(list(sh.extent[kind.upper()]), where, card != 'many', 'select-from')
            if card == 'many':
                self.store(var, [('inst', h) for h in c])
            else:
                self.store(var, ('inst', c[0]) if c else None)
        elif k == 'select_related':
            _, card, var, handle, steps, where = s
            self.note_reexecution(s, where)
            cur = self.navigate_steps(self.ev(handle), steps)
            c = self.candidates(cur, where, card != 'many', 'select-related')
            if card == 'many':
                self.store(var, [('inst', h) for h in c])
            else:
                self.store(var, ('inst', c[0]) if c else None)
        elif k == 'if':
            _, cond, then, elifs, else_ = s
            if self.ev(cond):
                self.block(then)
            else:
                for c, body in elifs:
                    if self.ev(c):
                        self.block(body)
                        break
                else:
                    if else_ is not None:
                        self.block(else_)
        elif k == 'while':
            while self.ev(s[1]):
                self.tick()
                try:
                    self.block(s[2])
                except _Continue:
                    continue
                except _Break:
                    break
        elif k == 'foreach':
            _, var, setvar, body = s
            items = self.lookup(setvar)
            if not isinstance(items, list):
                raise RefError('not a set')
            for it in list(items):
                self.tick()
                self.store(var, it)
                try:
                    self.block(body)
                except _Continue:
                    continue
                except _Break:
                    break
        elif k == 'break':
            raise _Break()
        elif k == 'continue':
            raise _Continue()
        elif k == 'return':
            if s[1] is not None:
                self.return_value = self.ev(s[1])
            raise _Return()
        elif k == 'stop':
            raise _Stop()
        elif k == 'invoke':
            self.ev(s[1])
        else:
            raise AssertionError(s)

    def run(self, stmts):
        '''execute a whole body; -> return value'''
        try:
            self.block(stmts)
        except (_Return, _Stop):
            pass
        return self.return_value


# ---------------------------------------------------------------------------
# builders: om.N nodes with the semantic tuple attached
# ---------------------------------------------------------------------------

def S(node, sem):
    node.sem = sem
    return node


def lit(v):
    if isinstance(v, bool):
        return S(om.boolean(v), ('bool', v))
    if isinstance(v, float):
        return S(om.real(repr(v)), ('real', v))
    if isinstance(v, int):
        if v < 0:
            return S(om.unary('-', om.integer(-v)), ('int', v))
        return S(om.integer(v), ('int', v))
    return S(om.string(v), ('str', v))


def var(name):
    return S(om.var(name), ('var', name))


def selected():
    return S(om.selected(), ('selected',))


def self_():
    return S(om.self_(), ('self',))


def param(name):
    return S(om.param(name), ('param', name))


def attr(handle, name):
    return S(om.field(handle, name), ('attr', handle.sem, name))


def un(op, e):
    return S(om.unary(op, e), ('un', op, e.sem))


def bin_(op, l, r):
    return S(om.binary(op, l, r), ('bin', op, l.sem, r.sem))


def assign(target, e):
    return S(om.assign(target, e), ('assign', target.sem, e.sem))


def create(v, k):
    return S(om.create(v, k), ('create', v, k))


def delete(v):
    return S(om.delete(v), ('delete', v))


def relate(a, b, rel, phrase=None, using=None, un=False):
    return S(om.relate(a, b, 'R%d' % rel, phrase, using, un), ('relate', a, b, rel, phrase, using, un))


def select_from(card, v, k, where=None):
    return S(om.select_from(card, v, k, where), ('select_from', card, v, k, where.sem if where else None))


def select_related(card, v, handle, steps, where=None):
    nodes = [om.nav_step(k, 'R%d' % rel, ph) for (k, rel, ph) in steps]
    return S(om.select_related(card, v, handle, nodes, where),
             ('select_related', card, v, handle.sem, list(steps), where.sem if where else None))


def if_(cond, then, elifs=(), else_=None):
    return S(om.if_(cond, then, [(c, b) for c, b in elifs], else_),
             ('if', cond.sem, [s.sem for s in then], [(c.sem, [s.sem for s in b]) for c, b in elifs],
              None if else_ is None else [s.sem for s in else_]))


def while_(cond, body):
    return S(om.while_(cond, body), ('while', cond.sem, [s.sem for s in body]))


def for_each(v, setv, body):
    return S(om.for_each(v, setv, body), ('foreach', v, setv, [s.sem for s in body]))


def break_():
    return S(om.break_(), ('break',))


def continue_():
    return S(om.continue_(), ('continue',))


def return_(e=None):
    return S(om.return_(e), ('return', e.sem if e is not None else None))


def stop():
    return S(om.control_stop(), ('stop',))


# ---------------------------------------------------------------------------
# generator (executes the reference while generating)
# ---------------------------------------------------------------------------

class ProgGen(object):
    '''
    Generates statements that run error-free on *ref* (a Ref bound to the
    schema's shadow). Variable types are tracked per block.
    '''

    def __init__(self, rng, schema, ref, features=None, ret_type=None):
        self.rng = rng
        self.schema = schema
        self.ref = ref
        self.types = [dict()]          # block stack: name -> type
        self.counter = 0
        self.ret_type = ret_type       # INT / STR / BOOL or None
        self.features = features or set(['loops', 'select', 'relate', 'delete', 'where', 'return', 'stop'])
        self.in_loop = 0
        self.stats = dict(loops=0, where=0, relate=0, statements=0, discarded=0)
        for b in ref.blocks:
            for name, v in b.items():
                pass

    # -- bookkeeping -----------------------------------------------------------
    def fresh(self, prefix='v'):
        self.counter += 1
        return '%s%d' % (prefix, self.counter)

    def result_variable(self, ty):
        '''
        the variable a selection / creation stores into: a new one, or (30 %) a visible one of that type -
        possibly declared in an enclosing block and possibly holding an empty handle at that moment
        '''
        same = [n for n, t in self.vars_of(lambda t: t == ty)]
        if same and self.rng.random() < 0.3:
            self.stats['stored-into-existing-variable'] = self.stats.get('stored-into-existing-variable', 0) + 1
            return self.rng.choice(same)
        return self.fresh('s' if ty[0] == 'set' else 'i')

    def vars_of(self, pred):
        out = []
        seen = set()
        for b in reversed(self.types):
            for n, t in b.items():
                if n not in seen and pred(t):
                    out.append((n, t))
                seen.add(n)
        return out

    def declare(self, name, ty):
        for b in self.types:
            if name in b:
                b[name] = ty
                return
        self.types[-1][name] = ty

    def attrs(self, kind, ty):
        ref = set(a.upper() for a in self.schema.referential(kind))
        return [a for a, t in self.schema.attrs(kind)
                if TYPE_OF[t.upper()] == ty and a.upper() not in ref]

    # -- expressions -------------------------------------------------------------
    def inst_expr(self):
        c = self.vars_of(lambda t: isinstance(t, tuple) and t[0] == 'inst')
        # only handles that are currently non-empty and alive
        ok = []
        for n, t in c:
            try:
                v = self.ref.lookup(n)
            except RefError:
                continue
            if v is not None and self.ref.shadow.alive.get(v[1]):
                ok.append((n, t))
        return ok

    def expr(self, ty, depth=2, selected_kind=None):
        r = self.rng
        k = r.random()
        # attribute reads
        sources = self.inst_expr()
        if selected_kind is not None:
            sources = sources + [('selected', ('inst', selected_kind))] * 3
        if k < 0.3 and sources and ty in (INT, STR, BOOL):
            n, t = r.choice(sources)
            at = self.attrs(t[1], ty)
            if at:
                h = selected() if n == 'selected' else var(n)
                return attr(h, r.choice(at))
        if k < 0.5:
            vs = self.vars_of(lambda t: t == ty)
            if vs:
                return var(r.choice(vs)[0])
        if depth <= 0 or k < 0.62:
            if ty == INT:
                return lit(r.choice((0, 1, 2, 3, 5, 7, 10, -1, -4, 12)))
            if ty == STR:
                return lit(r.choice(('', 'a', 'b', 'ab', 'x y', 'Hello')))
            if ty == REAL:
                return lit(r.choice((0.5, 1.5, 2.25, 10.0, 0.125, 3.0)))
            return lit(r.random() < 0.5)
        if ty == REAL:
            return bin_(r.choice(('+', '-', '*')), self.expr(REAL, depth - 1, selected_kind),
                        self.expr(REAL, depth - 1, selected_kind))
        if ty == INT:
            op = r.choice(('+', '-', '*', '+', '-', '/', '%', 'card', 'neg'))
            if op == 'card':
                c = self.vars_of(lambda t: isinstance(t, tuple))
                if c:
                    return un('cardinality', var(r.choice(c)[0]))
                op = '+'
            if op == 'neg':
                if r.random() < 0.3:
                    c = self.vars_of(lambda t: isinstance(t, tuple))
                    self.stats['unary-over-unary'] = self.stats.get('unary-over-unary', 0) + 1
                    if c and r.random() < 0.6:
                        return un('-', un('cardinality', var(r.choice(c)[0])))
                    return un('-', un('-', self.expr(INT, depth - 1, selected_kind)))
                return un('-', self.expr(INT, depth - 1, selected_kind))
            return bin_(op, self.expr(INT, depth - 1, selected_kind), self.expr(INT, depth - 1, selected_kind))
        if ty == STR:
            return bin_('+', self.expr(STR, depth - 1, selected_kind), self.expr(STR, depth - 1, selected_kind))
        # boolean
        op = r.choice(('cmp', 'cmp', 'and', 'or', 'not', 'streq', 'empty', 'booleq', 'insteq', 'realcmp'))
        if op == 'realcmp':
            self.stats['real-comparison'] = self.stats.get('real-comparison', 0) + 1
            return bin_(r.choice(('<', '<=', '>', '>=')), self.expr(REAL, depth - 1, selected_kind),
                        self.expr(REAL, depth - 1, selected_kind))
        if op == 'cmp':
            return bin_(r.choice(('<', '<=', '>', '>=', '==', '!=')), self.expr(INT, depth - 1, selected_kind),
                        self.expr(INT, depth - 1, selected_kind))
        if op in ('and', 'or'):
            return bin_(op, self.expr(BOOL, depth - 1, selected_kind), self.expr(BOOL, depth - 1, selected_kind))
        if op == 'not':
            if r.random() < 0.3:
                # a unary operator directly over another one
                c = self.vars_of(lambda t: isinstance(t, tuple))
                self.stats['unary-over-unary'] = self.stats.get('unary-over-unary', 0) + 1
                if c and r.random() < 0.7:
                    return un('not', un(r.choice(('empty', 'not_empty')), var(r.choice(c)[0])))
                return un('not', un('not', self.expr(BOOL, depth - 1, selected_kind)))
            return un('not', self.expr(BOOL, depth - 1, selected_kind))
        if op == 'streq':
            return bin_(r.choice(('==', '!=')), self.expr(STR, depth - 1, selected_kind),
                        self.expr(STR, depth - 1, selected_kind))
        if op == 'booleq':
            return bin_(r.choice(('==', '!=')), self.expr(BOOL, depth - 1, selected_kind),
                        self.expr(BOOL, depth - 1, selected_kind))
        if op == 'insteq':
            c = self.vars_of(lambda t: isinstance(t, tuple) and t[0] == 'inst')
            if len(c) >= 1:
                a = r.choice(c)
                same = [x for x in c if x[1] == a[1]]
                b = r.choice(same)
                return bin_(r.choice(('==', '!=')), var(a[0]), var(b[0]))
        c = self.vars_of(lambda t: isinstance(t, tuple))
        if c:
            return un(r.choice(('empty', 'not_empty')), var(r.choice(c)[0]))
        return lit(r.random() < 0.5)

    def where_expr(self, selected_kind):
        '''
        a where clause; often the classic lookup form  selected.<attr> == <expression without selected>
        whose right side reads a variable or an attribute of a (loop) variable, so that it changes from
        one execution of the statement to the next
        '''
        r = self.rng
        if r.random() < 0.4:
            ty = r.choice((INT, INT, STR, BOOL))
            at = self.attrs(selected_kind, ty)
            if at:
                left = attr(selected(), r.choice(at))
                right = None
                src = self.inst_expr()
                if src and r.random() < 0.5:
                    n, t = r.choice(src)
                    at2 = self.attrs(t[1], ty)
                    if at2:
                        right = attr(var(n), r.choice(at2))
                if right is None:
                    vs = self.vars_of(lambda t: t == ty)
                    right = var(r.choice(vs)[0]) if vs and r.random() < 0.7 else self.expr(ty, 1)
                self.stats['lookup-where'] = self.stats.get('lookup-where', 0) + 1
                if r.random() < 0.8:
                    return bin_('==', left, right)
                return bin_('==', right, left)
        return self.expr(BOOL, 2, selected_kind=selected_kind)

    # -- statements -----------------------------------------------------------------
    def nav_steps(self, kind, maxlen=3):
        r = self.rng
        steps = []
        cur = kind
        for _ in range(r.randint(1, maxlen)):
            opts = []
            for rop in self.schema.rops:
                if rop.src == cur:
                    opts.append((rop.tgt, rop.rel, rop.src_phrase or None))
                if rop.tgt == cur:
                    opts.append((rop.src, rop.rel, rop.tgt_phrase or None))
            # two hops through an association class
            for r1 in self.schema.rops:
                for r2 in self.schema.rops:
                    if r1 is not r2 and r1.rel == r2.rel and r1.src == r2.src and r1.tgt == cur \
                            and r1.tgt_phrase == r2.src_phrase and r1.src != cur \
                            and not any(o[0] == r2.tgt and o[1] == r1.rel and (o[2] or '') == r1.tgt_phrase for o in opts):
                        opts.append((r2.tgt, r1.rel, r1.tgt_phrase or None))
            if not opts:
                break
            st = r.choice(opts)
            steps.append(st)
            cur = st[0]
        return steps, cur

    def simple_statement(self):
        r = self.rng
        f = self.features
        choices = ['assign', 'assign', 'attr', 'attr', 'create']
        if 'select' in f:
            choices += ['select_from', 'select_from', 'select_related', 'select_related']
        if 'relate' in f:
            choices += ['relate', 'relate', 'relate', 'unrelate']
        if 'delete' in f:
            choices += ['delete']
        if self.in_loop:
            choices += ['break', 'continue']
        if 'return' in f and r.random() < 0.15:
            choices += ['return']
        if 'stop' in f and r.random() < 0.03:
            choices += ['stop']
        k = r.choice(choices)
        if k == 'assign':
            ty = r.choice((INT, INT, INT, STR, STR, BOOL, BOOL, REAL))
            vs = self.vars_of(lambda t: t == ty)
            name = r.choice(vs)[0] if vs and r.random() < 0.5 else self.fresh()
            return assign(var(name), self.expr(ty, 3)), [(name, ty)]
        if k == 'attr':
            src = self.inst_expr()
            if not src:
                return None
            n, t = r.choice(src)
            ty = r.choice((INT, STR, BOOL))
            at = self.attrs(t[1], ty)
            if not at:
                return None
            return assign(attr(var(n), r.choice(at)), self.expr(ty, 2)), []
        if k == 'create':
            kind = r.choice(self.schema.kinds())
            name = self.result_variable(('inst', kind)) if r.random() < 0.9 else None
            return create(name, kind), ([(name, ('inst', kind))] if name else [])
        if k == 'delete':
            src = self.inst_expr()
            if not src or r.random() < 0.5:
                return None
            return delete(r.choice(src)[0]), []
        if k == 'select_from':
            kind = r.choice(self.schema.kinds())
            card = r.choice(('any', 'many'))
            where = None
            if 'where' in f and r.random() < 0.5:
                where = self.where_expr(kind)
            ty = ('set', kind) if card == 'many' else ('inst', kind)
            name = self.result_variable(ty)
            return select_from(card, name, kind, where), [(name, ty)]
        if k == 'select_related':
            src = self.inst_expr()
            sets = [(n, t) for n, t in self.vars_of(lambda t: isinstance(t, tuple) and t[0] == 'set')]
            pool = src + (sets if r.random() < 0.4 else [])
            if not pool:
                return None
            # prefer (of a few tries) a navigation that reaches several instances
            wide = False
            for _ in range(4):
                n, t = r.choice(pool)
                steps, end = self.nav_steps(t[1])
                if not steps:
                    continue
                try:
                    wide = len(self.ref.navigate_steps(self.ref.lookup(n), steps)) > 1
                except RefError:
                    wide = False
                if wide:
                    break
            if not steps:
                return None
            card = r.choice(('one', 'any', 'many', 'many'))
            if wide and r.random() < 0.5:
                card = 'any'
            where = None
            if 'where' in f and r.random() < (0.7 if wide else 0.4):
                where = self.where_expr(end)
            ty = ('set', end) if card == 'many' else ('inst', end)
            name = self.result_variable(ty)
            if name == n:
                name = self.fresh('s' if card == 'many' else 'i')
            return select_related(card, name, var(n), steps, where), [(name, ty)]
        if k in ('relate', 'unrelate'):
            src = self.inst_expr()
            if len(src) < 2:
                return None
            un_ = k == 'unrelate'
            r.shuffle(src)
            sh = self.ref.shadow
            for (a, ta) in src[:6]:
                for (b, tb) in src[:6]:
                    if a == b:
                        continue
                    for rop in self.schema.rops:
                        for (x, y, ph) in ((rop.src, rop.tgt, rop.src_phrase), (rop.tgt, rop.src, rop.tgt_phrase)):
                            if ta[1] == x and tb[1] == y:
                                # association class: relate the two participants using the link instance
                                st = relate(a, b, rop.rel, ph or None, None, un_)
                                if self.try_exec(st):
                                    return st, [], True
                    # using form: a and b are the participants of an association class
                    for r1 in self.schema.rops:
                        for r2 in self.schema.rops:
                            if r1 is r2 or r1.rel != r2.rel or r1.src != r2.src:
                                continue
                            if ta[1] == r1.tgt and tb[1] == r2.tgt:
                                links = [n for n, t in src if t[1] == r1.src]
                                for l in links[:3]:
                                    st = relate(a, b, r1.rel, r1.tgt_phrase or None, l, un_)
                                    if self.try_exec(st):
                                        return st, [], True
            return None
        if k == 'break':
            return break_(), []
        if k == 'continue':
            return continue_(), []
        if k == 'return':
            if self.ret_type is None:
                return return_(None), []
            return return_(self.expr(self.ret_type, 2)), []
        if k == 'stop':
            return stop(), []
        return None

    def try_exec(self, st):
        probe = self.ref.fork()
        try:
            probe.ex(st.sem)
            return True
        except RefError:
            return False
        except (_Break, _Continue, _Return, _Stop):
            return True

    def statement(self, depth):
        """
        -> (list of statement nodes, terminated) or None. The statements have
        been executed on self.ref (a heuristic state: the final verdict comes
        from a clean run of the whole program).
        """
        r = self.rng
        if depth > 0 and 'loops' in self.features and r.random() < 0.3:
            return self.compound(depth)
        res = self.simple_statement()
        if res is None:
            return None
        st, decls = res[0], res[1]
        snapshot = self.ref.fork()
        try:
            self.ref.ex(st.sem)
        except RefError:
            self.restore(snapshot)
            self.stats['discarded'] += 1
            return None
        except (_Break, _Continue, _Return, _Stop):
            self.restore(snapshot)
            return [st], True
        for n, t in decls:
            self.declare(n, t)
        if st.sem[0] == 'relate':
            self.stats['relate'] += 1
        if st.sem[0] in ('select_from', 'select_related') and st.sem[-1] is not None:
            self.stats['where'] += 1
        return [st], False

    def restore(self, snapshot):
        self.ref.shadow = snapshot.shadow
        self.ref.blocks = snapshot.blocks
        self.ref.id_counter = snapshot.id_counter
        self.ref.return_value = snapshot.return_value
        self.ref.steps = snapshot.steps

    def block(self, depth, maxn=4):
        """statements of a nested block, generated as if the block ran once"""
        out = []
        self.types.append(dict())
        self.ref.blocks.append(dict())
        try:
            for _ in range(self.rng.randint(1, maxn)):
                res = self.statement(depth)
                if res is None:
                    continue
                out.extend(res[0])
                if res[1]:
                    break
        finally:
            self.types.pop()
            if len(self.ref.blocks) > 1:
                self.ref.blocks.pop()
        return out

    def compound(self, depth):
        r = self.rng
        real = self.ref.fork()           # the state before the compound statement
        kind = r.choice(('if', 'if', 'while', 'foreach', 'foreach'))
        types_before = [dict(b) for b in self.types]
        try:
            if kind == 'if':
                cond = self.expr(BOOL, 3)
                then = self.block(depth - 1)
                self.restore(real.fork())
                elifs = []
                for _ in range(r.choice((0, 0, 1, 2))):
                    c = self.expr(BOOL, 2)
                    b = self.block(depth - 1)
                    self.restore(real.fork())
                    elifs.append((c, b))
                else_ = None
                if r.random() < 0.5:
                    else_ = self.block(depth - 1)
                    self.restore(real.fork())
                stmts = [if_(cond, then, elifs, else_)]
            elif kind == 'while':
                i = self.fresh('n')
                bound = r.randint(0, 4)
                init = assign(var(i), lit(0))
                self.ref.ex(init.sem)
                self.declare(i, INT)
                after_init = self.ref.fork()
                types_after_init = [dict(b) for b in self.types]
                self.in_loop += 1
                try:
                    incr = assign(var(i), bin_('+', var(i), lit(1)))
                    self.ref.ex(incr.sem)
                    body = [incr] + self.block(depth - 1)
                finally:
                    self.in_loop -= 1
                self.restore(after_init)
                self.types = types_after_init
                cond = bin_('<', var(i), lit(bound))
                if r.random() < 0.3:
                    cond = bin_('and', cond, self.expr(BOOL, 1))
                stmts = [init, while_(cond, body)]
                self.restore(real.fork())
            else:
                sets = self.vars_of(lambda t: isinstance(t, tuple) and t[0] == 'set')
                if not sets:
                    return None
                setv, t = r.choice(sets)
                # the loop variable is a new one, or a visible variable of that class (which keeps its value when
                # the set is empty and holds the last element visited otherwise)
                same = [v for v, t2 in self.vars_of(lambda t2: t2 == ('inst', t[1]))]
                reuse = bool(same) and r.random() < 0.35
                lv = r.choice(same) if reuse else self.fresh('e')
                items = self.ref.lookup(setv)
                first = items[0] if items else None
                if reuse:
                    self.stats['loop-variable-reused'] = self.stats.get('loop-variable-reused', 0) + 1
                    if first is None:
                        self.stats['loop-variable-reused-empty-set'] = self.stats.get('loop-variable-reused-empty-set', 0) + 1
                else:
                    self.declare(lv, ('inst', t[1]))
                if first is not None or not reuse:
                    self.ref.store(lv, first)
                self.in_loop += 1
                try:
                    body = self.block(depth - 1) if first is not None else [assign(var(self.fresh()), lit(1))]
                finally:
                    self.in_loop -= 1
                stmts = [for_each(lv, setv, body)]
                self.restore(real.fork())
                # a new loop variable is not relied upon after the loop
                if not reuse:
                    for b in self.types:
                        b.pop(lv, None)
        except RefError:
            self.restore(real)
            self.types = types_before
            self.stats['discarded'] += 1
            return None
        # execute the finished statement(s) for real
        try:
            for s in stmts:
                self.ref.ex(s.sem)
        except RefError:
            self.restore(real)
            self.types = types_before
            self.stats['discarded'] += 1
            return None
        except (_Break, _Continue, _Return, _Stop):
            return stmts, True
        if kind != 'if':
            self.stats['loops'] += 1
        return stmts, False

    def program(self, nstmts, depth=3):
        """-> list of statement nodes forming a body"""
        out = []
        for _ in range(nstmts * 4):
            if len(out) >= nstmts:
                break
            res = self.statement(depth)
            if res is None:
                continue
            sts, terminated = res
            if terminated and sts[-1].sem[0] in ('break', 'continue'):
                continue          # not inside a loop here
            out.extend(sts)
            if terminated:
                break
        return out


