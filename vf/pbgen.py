'''
The prebuild "universe" (a fixed BridgePoint model synthesised with
vf.bpsynth: classes, relationships, functions, an external entity, operations,
a derived attribute, an enumeration, constants, and one *home* of each kind
for the action under test) and a generator of well-formed, name-resolved,
type-correct OAL bodies over it (no execution: these programs are translated,
not run). Every expression node carries its OAL type in node.sem.
'''
from vf import bpsynth as bp
from vf import oalmodel as om

INT, STR, BOOL, REAL, ENUM, ENUM2, VOID = 'integer', 'string', 'boolean', 'real', 'Color', 'Mood', 'void'
UID = 'unique_id'      # identifying and referential attributes (read, compared, kept in variables)
# user types over core types: reads of attributes / parameters declared with them keep the user type, the
# comparison or boolean operator above them yields boolean
FLAG, COUNT = 'Flag_t', 'Count_t'
UDT_BASE = {FLAG: BOOL, COUNT: INT}

CLASSES = {
    'A': [('Id', 'unique_id'), ('N', INT), ('S', STR), ('F', BOOL), ('Next_Id', None), ('Hue', ENUM), ('G', FLAG)],
    # (an attribute called length: the word also names the size of an array)
    'B': [('Id', 'unique_id'), ('A_Id', None), ('N', INT), ('S', STR), ('length', INT)],
    'C': [('Id', 'unique_id'), ('A_Id', None), ('F', BOOL), ('N', INT)],
    'L': [('A_Id', None), ('B_Id', None), ('W', INT)],
    'D': [('Id', 'unique_id'), ('S', STR), ('K', INT), ('X', REAL), ('Cnt', COUNT), ('length', INT)],
    # refers to the identifier of L, which consists of referential attributes itself (a key chain)
    'M': [('Id', 'unique_id'), ('L_A_Id', None), ('L_B_Id', None), ('N', INT)],
}
# (rel, from class, to class, phrase or None): navigable steps
NAV = [(1, 'B', 'A', None), (1, 'A', 'B', None), (2, 'C', 'A', None), (2, 'A', 'C', None),
       (3, 'A', 'A', 'precedes'), (3, 'A', 'A', 'succeeds'),
       (4, 'L', 'A', None), (4, 'A', 'L', None), (4, 'L', 'B', None), (4, 'B', 'L', None),
       (4, 'A', 'B', None), (4, 'B', 'A', None), (5, 'M', 'L', None), (5, 'L', 'M', None)]
RELATE = [(1, 'B', 'A', None, None), (1, 'A', 'B', None, None), (2, 'C', 'A', None, None),
          (3, 'A', 'A', 'precedes', None), (3, 'A', 'A', 'succeeds', None),
          (4, 'A', 'B', None, 'L'), (4, 'B', 'A', None, 'L'), (5, 'M', 'L', None, None)]
# the *_shadow callables declare the parameter names of the home actions with other types: a parameter read
# must resolve within its own action
FUNCS = {'f_shadow': (VOID, [('p_int', STR), ('p_str', BOOL), ('p_bool', INT)]),
         'f_int': (INT, [('num', INT), ('txt', STR)]), 'f_str': (STR, [('txt', STR)]), 'f_bool': (BOOL, []),
         'f_void': (VOID, [('num', INT)]), 'f_three': (INT, [('first', INT), ('flag', BOOL), ('third', STR)])}
BRIDGES = {'b_shadow': (VOID, [('p_int', BOOL), ('p_str', INT), ('p_bool', STR)]), 'b_int': (INT, [('num', INT)]), 'b_void': (VOID, [('txt', STR), ('num', INT)]), 'b_str': (STR, [])}
CLASS_OPS = {'cop_int': (INT, [('num', INT)]), 'cop_void': (VOID, [])}
INST_OPS = {'iop_shadow': (VOID, [('p_int', STR), ('p_str', BOOL), ('p_bool', INT)]), 'iop_int': (INT, [('num', INT), ('txt', STR)]), 'iop_void': (VOID, []), 'iop_bool': (BOOL, [('flag', BOOL)])}
HOME_PARAMS = [('p_int', INT), ('p_str', STR), ('p_bool', BOOL), ('p_flag', FLAG), ('p_cnt', COUNT)]
ENUMERATORS = ['Red', 'Green', 'Blue']
ENUMERATORS2 = ['Blue', 'Happy', 'Red']        # shares names with Color on purpose
CONSTS = [('C_INT', INT, '42'), ('C_STR', STR, 'hello'), ('C_BOOL', BOOL, 'true')]
# a second group: one of its constants shares its name with a constant of the first group
CONSTS2 = [('C_INT', INT, '7'), ('L_STR', STR, 'lim')]
CONST_GROUPS = [('Consts', CONSTS), ('Limits', CONSTS2)]
UNIQUE_CONSTANT_NAMES = set(['C_STR', 'C_BOOL', 'L_STR'])
HOMES = ('function', 'bridge', 'operation', 'derived')
VOID_HOMES = ('bridge', 'derived', 'state', 'transition')      # their bodies return no value
# outside the quantified domain of C05/C06/C08 (explored by C06 without verdict): state machine actions
EXTRA_HOMES = ('state', 'transition')
EVENT = 'event'            # the type of a variable holding a created event instance (inst<Event>)
# state machines: {(key letters, 'instance'|'class'): [(numb, meaning, [(data item, type)])]}
EVENTS = {('A', 'instance'): [(1, 'go', [('x', INT), ('msg', STR)]), (2, 'halt', [('flag', BOOL)]),
                              (3, 'make', [('num', INT)]), (4, 'no op', [])],
          ('A', 'class'): [(1, 'tick', [('n', INT)]), (2, 'tock', [])],
          ('B', 'instance'): [(1, 'ping', [('txt', STR), ('num', INT), ('flag', BOOL)]), (2, 'pong', [])]}
CREATION_EVENTS = {'A': [3]}
# the home actions: the state Going is entered by A1, the transition action belongs to Going -[A2]-> Done
HOME_EVENT_DATA = {'state': [('x', INT), ('msg', STR)], 'transition': [('flag', BOOL)]}


def diagram():
    d = bp.Diagram()
    d.enums = [('Color', list(ENUMERATORS), 'pkg'), ('Mood', list(ENUMERATORS2), 'pkg')]
    d.udts = [('Count_t', 'integer', 'pkg'), ('Flag_t', 'boolean', 'pkg')]
    ops = [bp.Callable_(n, r, p, '', False) for n, (r, p) in CLASS_OPS.items()]
    ops += [bp.Callable_(n, r, p, '', True) for n, (r, p) in INST_OPS.items()]
    ops.append(bp.Callable_('home_op', INT, HOME_PARAMS, '', True))
    for kl, attrs in CLASSES.items():
        alist = [bp.Attr(a, t) for a, t in attrs]
        if kl == 'A':
            alist.append(bp.Attr('der', INT, derived=''))
        idents = [['Id']] if any(a == 'Id' for a, _ in attrs) else [[a for a, t in attrs if t is None]]
        d.classes.append(bp.Cls('Class_' + kl, kl, len(d.classes) + 1, alist, idents, ops if kl == 'A' else ()))
    d.rels = [
        bp.Simple(1, bp.End('B', 1, 1, 'has'), bp.End('A', 0, 1, 'belongs to'), [('A_Id', 'Id')]),
        bp.Simple(2, bp.End('C', 0, 1, ''), bp.End('A', 0, 1, ''), [('A_Id', 'Id')]),
        bp.Simple(3, bp.End('A', 0, 1, 'succeeds'), bp.End('A', 0, 1, 'precedes'), [('Next_Id', 'Id')]),
        bp.Linked(4, bp.End('A', 1, 1, 'x'), bp.End('B', 1, 1, 'y'), 'L', 0, [('A_Id', 'Id')], [('B_Id', 'Id')]),
        bp.Simple(5, bp.End('M', 1, 1, ''), bp.End('L', 0, 1, ''), [('L_A_Id', 'A_Id'), ('L_B_Id', 'B_Id')]),
    ]
    for n, (r, p) in FUNCS.items():
        d.functions.append((bp.Callable_(n, r, p, ''), 'pkg'))
    d.functions.append((bp.Callable_('home_fn', INT, HOME_PARAMS, ''), 'pkg'))
    brgs = [bp.Callable_(n, r, p, '') for n, (r, p) in BRIDGES.items()]
    brgs.append(bp.Callable_('home_brg', VOID, HOME_PARAMS, ''))     # a home without return value
    d.ees = [('External', 'EX', brgs, 'pkg')]
    d.constants = [('Consts', list(CONSTS), 'pkg'), ('Limits', list(CONSTS2), 'pkg')]
    for (kl, kind), evs in EVENTS.items():
        events = [bp.Event(n, m, data) for n, m, data in evs]
        states, txns = [], []
        if (kl, kind) == ('A', 'instance'):
            states = [('Idle', 1, '', ''), ('Going', 2, '', 'home_state'), ('Done', 3, '', ''), ('Made', 4, '', '')]
            txns = [('Idle', 1, 'Going', None, ''), ('Going', 2, 'Done', '', 'home_transition'),
                    (None, 3, 'Made', None, '')]
        d.state_machines.append(bp.StateMachine(kl, kind, events, states, txns))
    return d


_text = None


def universe_text():
    global _text
    if _text is None:
        B = bp.build(diagram())
        # only the home under test is parsed: everything else keeps Suc_Pars = 0
        for kind, values in B.rows.rows:
            if 'Suc_Pars' in values:
                values['Suc_Pars'] = 0
        _text = B.rows.text()
    return _text


def home_instance(m, home):
    if home == 'function':
        return m.select_any('S_SYNC', lambda s: s.Name == 'home_fn')
    if home == 'bridge':
        return m.select_any('S_BRG', lambda s: s.Name == 'home_brg')
    if home == 'operation':
        return m.select_any('O_TFR', lambda s: s.Name == 'home_op')
    if home in ('state', 'transition'):
        return m.select_any('SM_ACT', lambda s: s.Descrip == 'home_' + home)
    return m.select_any('O_DBATTR')


# ---------------------------------------------------------------------------
# typed expression / statement builders
# ---------------------------------------------------------------------------

def T(node, ty):
    node.sem = ty
    return node


UDT_OPERANDS = [0]
CASE_VARIANTS = [0]


KEYWORD_FRAGMENTS = ('a', 's', 'e', 'c', 'n', 'an', 'ea', 'sel', 'cre', 'rom', 'ach', 'whe', 'lat')
KEYWORD_FRAGMENT_NAMES = [0]


class Gen(object):
    def __init__(self, rng, home, features=None, events=False, bare_constants=False):
        self.rng = rng
        self.home = home
        self.scopes = [dict()]      # name -> type: INT/STR/BOOL/REAL/ENUM, ('inst', K), ('set', K), ('array', t)
        self.counter = 0
        self.in_loop = 0
        self.has_self = home in ('operation', 'derived', 'state', 'transition')
        self.has_params = home != 'derived'
        self.home_params = HOME_EVENT_DATA.get(home, HOME_PARAMS)
        self.features = features    # None: everything
        self.events = events        # event statements (generate / create event instance)
        self.bare_constants = bare_constants    # constants also by their bare name (C_INT for Consts::C_INT)
        self.decl_block = {}        # variable name -> statement node that declares it (for C06)
        self.retired = []           # names whose block has ended: free to be declared again

    def fresh(self, p='v'):
        # a name whose declaring block has ended may be declared again (possibly with another type)
        free = [n for n in self.retired if self.lookup(n) is None]
        if free and self.rng.random() < 0.35:
            n = self.rng.choice(free)
            self.retired.remove(n)
            return n
        # a name that differs from a visible one only in letter case is another variable
        seen = [n for n, t in self.vars_of(lambda t: True) if n.upper() != n and self.lookup(n.upper()) is None]
        if seen and self.rng.random() < 0.12:
            CASE_VARIANTS[0] += 1
            return self.rng.choice(seen).upper()
        if self.rng.random() < 0.12:
            # a short name that is also a fragment of a keyword of the language (select any a from ..., for each e in ...)
            short = [n for n in KEYWORD_FRAGMENTS if self.lookup(n) is None and n not in self.retired
                     and self.lookup(n.upper()) is None]
            if short:
                KEYWORD_FRAGMENT_NAMES[0] += 1
                return self.rng.choice(short)
        self.counter += 1
        return '%s%d' % (p, self.counter)

    def vars_of(self, pred):
        out, seen = [], set()
        for s in reversed(self.scopes):
            for n, t in s.items():
                if n not in seen and pred(t):
                    out.append((n, t))
                seen.add(n)
        return out

    def lookup(self, name):
        for s in reversed(self.scopes):
            if name in s:
                return s[name]
        return None

    # -- expressions -------------------------------------------------------------
    def inst_vars(self, kind=None):
        v = self.vars_of(lambda t: isinstance(t, tuple) and t[0] == 'inst' and (kind is None or t[1] == kind))
        return v

    def handle(self, name):
        return T(om.var(name), self.lookup(name))

    def attr_read(self, ty, selected_kind=None):
        r = self.rng
        cands = []
        for n, t in self.inst_vars():
            for a, at in CLASSES[t[1]]:
                if at == ty:
                    cands.append((self.handle, n, a))
        if self.has_self:
            for a, at in CLASSES['A']:
                if at == ty:
                    cands.append((lambda _: T(om.self_(), ('inst', 'A')), None, a))
        if selected_kind:
            for a, at in CLASSES[selected_kind]:
                if at == ty:
                    cands.extend([(lambda _: T(om.selected(), ('inst', selected_kind)), None, a)] * 3)
        if not cands:
            return None
        mk, n, a = r.choice(cands)
        return T(om.field(mk(n), a), ty)

    def udt_operand(self, base, selected_kind=None):
        '''a read of an attribute or parameter declared with a user type over *base*, or None'''
        r = self.rng
        udt = FLAG if base == BOOL else COUNT if base == INT else None
        if udt is None or r.random() >= 0.25:
            return None
        return self.udt_read(udt, selected_kind)

    def udt_read(self, udt, selected_kind=None):
        '''a read of an attribute, parameter or variable of the user type *udt*, or None'''
        r = self.rng
        cands = []
        for n, t in self.vars_of(lambda t: t == udt):
            cands.extend([lambda n=n: om.var(n)] * 2)
        for n, t in self.inst_vars():
            for a, at in CLASSES[t[1]]:
                if at == udt:
                    cands.append(lambda n=n, a=a: om.field(self.handle(n), a))
        if self.has_self and udt == FLAG:
            cands.append(lambda: om.field(T(om.self_(), ('inst', 'A')), 'G'))
        if selected_kind:
            for a, at in CLASSES[selected_kind]:
                if at == udt:
                    cands.append(lambda a=a: om.field(T(om.selected(), ('inst', selected_kind)), a))
        if self.has_params:
            for pn, pt in self.home_params:
                if pt == udt:
                    cands.append(lambda pn=pn: om.param(pn))
        if not cands:
            return None
        UDT_OPERANDS[0] += 1
        return T(r.choice(cands)(), udt)

    def uid_read(self, selected_kind=None):
        '''a read of an identifying or a referential attribute (the referential ones carry another name than
        the attribute they refer to), or of a variable that holds such a value'''
        r = self.rng
        cands = []
        for n, t in self.inst_vars():
            for a, at in CLASSES[t[1]]:
                if at in (None, 'unique_id'):
                    cands.append((self.handle, n, a))
        if self.has_self:
            for a, at in CLASSES['A']:
                if at in (None, 'unique_id'):
                    cands.append((lambda _: T(om.self_(), ('inst', 'A')), None, a))
        if selected_kind:
            for a, at in CLASSES[selected_kind]:
                if at in (None, 'unique_id'):
                    cands.append((lambda _: T(om.selected(), ('inst', selected_kind)), None, a))
        vs = self.vars_of(lambda t: t == UID)
        if vs and r.random() < 0.3:
            return T(om.var(r.choice(vs)[0]), UID)
        if not cands:
            return None
        mk, n, a = r.choice(cands)
        return T(om.field(mk(n), a), UID)

    def invocation(self, ty, depth, selected_kind=None):
        '''an invocation returning *ty* (VOID for statement use); None if impossible'''
        r = self.rng
        cands = []
        for n, (rt, ps) in FUNCS.items():
            if rt == ty:
                cands.append(('f', n, ps))
        for n, (rt, ps) in BRIDGES.items():
            if rt == ty:
                cands.append(('b', n, ps))
        for n, (rt, ps) in CLASS_OPS.items():
            if rt == ty:
                cands.append(('cop', n, ps))
        if self.inst_vars('A'):
            for n, (rt, ps) in INST_OPS.items():
                if rt == ty:
                    cands.append(('iop', n, ps))
        if not cands:
            return None
        k, n, ps = r.choice(cands)
        items = [(pn, self.expr(pt, depth - 1, selected_kind)) for pn, pt in ps]
        if k == 'f':
            node = om.fcall(n, items)
        elif k == 'b':
            node = om.implicit_call('EX', n, items)
            node.alt_cls = ('BridgeInvocationNode',)
        elif k == 'cop':
            node = om.implicit_call('A', n, items)
            node.alt_cls = ('ClassInvocationNode',)
        else:
            node = om.icall(self.handle(r.choice(self.inst_vars('A'))[0]), n, items)
        return T(node, ty)

    def event_statement(self, create):
        '''generate / create event instance, to an instance, a class (assigner) or a creator'''
        r = self.rng
        targets = []
        for n, t in self.inst_vars():
            if (t[1], 'instance') in EVENTS:
                targets.append(('instance', t[1], n))
        if self.has_self:
            targets.append(('instance', 'A', 'self'))
        targets.append(('class', 'A', None))
        targets.append(('creator', 'A', None))
        kind, kl, var = r.choice(targets)
        evs = EVENTS[(kl, 'class' if kind == 'class' else 'instance')]
        if kind == 'creator':
            evs = [e for e in evs if e[0] in CREATION_EVENTS[kl]]
        numb, meaning, data = r.choice(evs)
        label = '%s%s%d' % (kl, '_A' if kind == 'class' else '', numb)
        items = list(data)
        r.shuffle(items)
        spec = om.event_spec(label, meaning, [(dn, self.expr(dt, 2)) for dn, dt in items] if (items or r.random() < 0.7) else None,
                             ticked=(' ' in meaning) or r.random() < 0.6)
        if kind == 'instance':
            tgt = T(om.self_(), ('inst', 'A')) if var == 'self' else self.handle(var)
        else:
            tgt = kl
            kind = r.choice(('class', 'assigner')) if kind == 'class' else kind
        if kind == 'instance':
            tgt.sem = None      # the target is related as a variable (R711 / R712), not as a value
        if not create:
            return om.generate_to(spec, tgt, kind)
        evs = self.vars_of(lambda t: t == EVENT)
        name = r.choice(evs)[0] if evs and r.random() < 0.4 else self.fresh('ev')
        st = om.create_event(name, spec, tgt, kind)
        self.declare(name, EVENT)
        return st

    def result_variable(self, ty, avoid=None):
        '''the variable a selection stores into: a new one, or (30 %) one of that type declared before'''
        same = [v for v, t in self.vars_of(lambda t: t == ty) if v != avoid]
        if same and self.rng.random() < 0.3:
            return self.rng.choice(same)
        return self.fresh('s' if ty[0] == 'set' else 'i')

    def element2(self, name, ty):
        r = self.rng
        i = r.randint(0, 3)
        j = r.choice([x for x in range(4) if x != i])
        second = T(om.integer(j), INT)
        ints = self.vars_of(lambda t: t == INT)
        if ints and r.random() < 0.3:
            second = T(om.var(r.choice(ints)[0]), INT)
        inner = T(om.index(T(om.var(name), ('array2', ty)), T(om.integer(i), INT)), ('array', ty))
        return T(om.index(inner, second), ty)

    def legacy_keyword(self, inv):
        '''the optional statement keyword of the old syntax: bridge EE::f(..), transform KL::op(..) / inst.op(..)'''
        if self.rng.random() < 0.6:
            return None
        alt = getattr(inv, 'alt_cls', None) or ()
        if 'BridgeInvocationNode' in alt:
            return 'bridge'
        if 'ClassInvocationNode' in alt or inv.cls == 'InstanceInvocationNode':
            return 'transform'
        return None

    def literal(self, ty):
        r = self.rng
        if ty == INT:
            return T(om.integer(r.choice((0, 1, 2, 7, 42, 100))), INT)
        if ty == STR:
            return T(om.string(r.choice(('', 'a', 'hello world', 'x-y', ' lead', 'trail ', ' '))), STR)
        if ty == BOOL:
            return T(om.boolean(r.random() < 0.5), BOOL)
        if ty == REAL:
            return T(om.real(r.choice(('1.5', '0.25', '10.0', '1e3', '25E-1', '7e+2'))), REAL)
        if ty == ENUM:
            return T(om.enum('Color', r.choice(ENUMERATORS)), ENUM)
        if ty == ENUM2:
            return T(om.enum('Mood', r.choice(ENUMERATORS2)), ENUM2)
        raise AssertionError(ty)

    def expr(self, ty, depth=2, selected_kind=None):
        r = self.rng
        if ty == UID:
            return self.uid_read(selected_kind)
        k = r.random()
        if k < 0.18:
            vs = self.vars_of(lambda t: t == ty)
            if vs:
                return T(om.var(r.choice(vs)[0]), ty)
        if k < 0.34:
            e = self.attr_read(ty, selected_kind)
            if e is not None:
                return e
        if k < 0.42 and self.has_params:
            ps = [pn for pn, pt in self.home_params if pt == ty]
            if ps:
                word = 'param' if self.home not in HOME_EVENT_DATA or r.random() < 0.5 else 'rcvd_evt'
                return T(om.param(r.choice(ps), word), ty)
        if k < 0.48:
            cs = [(g, c) for g, group in CONST_GROUPS for c in group if c[1] == ty]
            if cs:
                g, c = r.choice(cs)
                c = c[0]
                if (self.bare_constants and c in UNIQUE_CONSTANT_NAMES and r.random() < 0.4
                        and self.lookup(c) is None):
                    om.STATS['bare-constant'] = om.STATS.get('bare-constant', 0) + 1
                    return T(om.var(c), ty)
                return T(om.enum(g, c), ty)
        if k < 0.56 and depth > 0:
            e = self.invocation(ty, depth, selected_kind)
            if e is not None:
                return e
        if k < 0.60 and ty in (INT, STR):
            mats = self.vars_of(lambda t: t == ('array2', ty))
            if mats and r.random() < 0.5:
                return self.element2(r.choice(mats)[0], ty)
            arrs = self.vars_of(lambda t: t == ('array', ty))
            if arrs:
                return T(om.index(T(om.var(r.choice(arrs)[0]), ('array', ty)), T(om.integer(r.randint(0, 2)), INT)), ty)
        if depth <= 0 or k < 0.72 or ty in (REAL, ENUM, ENUM2):
            return self.literal(ty)
        if ty == INT:
            op = r.choice(('+', '-', '*', '/', '%', 'neg', 'card'))
            if op == 'neg':
                if r.random() < 0.3:
                    hs = self.vars_of(lambda t: isinstance(t, tuple) and t[0] in ('inst', 'set'))
                    if hs and r.random() < 0.6:
                        inner = T(om.unary('cardinality', self.handle(r.choice(hs)[0])), INT)
                    else:
                        inner = T(om.unary('-', self.expr(INT, depth - 1, selected_kind)), INT)
                    om.STATS['unary-over-unary'] = om.STATS.get('unary-over-unary', 0) + 1
                    return T(om.unary(r.choice(('-', '-', '+')), inner), INT)
                # (the sign operators are two: + is an operator of its own, not the absence of one)
                sign = r.choice(('-', '-', '+'))
                if sign == '+':
                    om.STATS['unary-plus'] = om.STATS.get('unary-plus', 0) + 1
                return T(om.unary(sign, self.expr(INT, depth - 1, selected_kind)), INT)
            if op == 'card':
                hs = self.vars_of(lambda t: isinstance(t, tuple) and t[0] in ('inst', 'set'))
                if hs:
                    return T(om.unary('cardinality', self.handle(r.choice(hs)[0])), INT)
                op = '+'
            return T(om.binary(op, self.expr(INT, depth - 1, selected_kind), self.expr(INT, depth - 1, selected_kind)), INT)
        if ty == STR:
            return T(om.binary('+', self.expr(STR, depth - 1, selected_kind), self.expr(STR, depth - 1, selected_kind)), STR)
        op = r.choice(('cmp', 'cmp', 'and', 'or', 'not', 'empty', 'streq', 'enumeq', 'enumeq2', 'uideq'))
        if op == 'uideq':
            a, b = self.uid_read(selected_kind), self.uid_read(selected_kind)
            if a is not None and b is not None:
                return T(om.binary(r.choice(('==', '!=')), a, b), BOOL)
            op = 'cmp'
        if op == 'cmp':
            return T(om.binary(r.choice(('<', '<=', '==', '!=', '>=', '>')),
                               self.udt_operand(INT, selected_kind) or self.expr(INT, depth - 1, selected_kind),
                               self.udt_operand(INT, selected_kind) or self.expr(INT, depth - 1, selected_kind)), BOOL)
        if op in ('and', 'or'):
            return T(om.binary(op, self.udt_operand(BOOL, selected_kind) or self.expr(BOOL, depth - 1, selected_kind),
                               self.udt_operand(BOOL, selected_kind) or self.expr(BOOL, depth - 1, selected_kind)), BOOL)
        if op == 'not':
            if r.random() < 0.3:
                # a unary operator directly over another one (not empty h, not not_empty h, not not b)
                hs = self.vars_of(lambda t: isinstance(t, tuple) and t[0] in ('inst', 'set'))
                if hs and r.random() < 0.7:
                    inner = T(om.unary(r.choice(('empty', 'not_empty')), self.handle(r.choice(hs)[0])), BOOL)
                else:
                    inner = T(om.unary('not', self.expr(BOOL, depth - 1, selected_kind)), BOOL)
                om.STATS['unary-over-unary'] = om.STATS.get('unary-over-unary', 0) + 1
                return T(om.unary('not', inner), BOOL)
            return T(om.unary('not', self.udt_operand(BOOL, selected_kind) or self.expr(BOOL, depth - 1, selected_kind)), BOOL)
        if op == 'streq':
            return T(om.binary(r.choice(('==', '!=')), self.expr(STR, depth - 1, selected_kind),
                               self.expr(STR, depth - 1, selected_kind)), BOOL)
        if op == 'enumeq':
            return T(om.binary('==', self.expr(ENUM, 0, selected_kind), self.literal(ENUM)), BOOL)
        if op == 'enumeq2':
            return T(om.binary('!=', self.expr(ENUM2, 0, selected_kind), self.literal(ENUM2)), BOOL)
        hs = self.vars_of(lambda t: isinstance(t, tuple) and t[0] in ('inst', 'set'))
        if hs:
            return T(om.unary(r.choice(('empty', 'not_empty')), self.handle(r.choice(hs)[0])), BOOL)
        return self.literal(BOOL)

    # -- statements -------------------------------------------------------------
    def block(self, depth, maxn=3):
        self.scopes.append(dict())
        out = []
        for _ in range(self.rng.randint(1, maxn)):
            s = self.statement(depth)
            if s is not None:
                out.append(s)
                if s.cls in ('BreakNode', 'ContinueNode', 'ReturnNode', 'ControlNode'):
                    break
        gone = self.scopes.pop()
        self.retired.extend(gone)
        return out

    def declare(self, name, ty, stmt=None):
        for s in self.scopes:
            if name in s:
                return
        self.scopes[-1][name] = ty

    def statement(self, depth):
        r = self.rng
        kinds = ['assign', 'assign', 'assign', 'attr', 'attr', 'create', 'create_nv', 'delete', 'relate', 'unrelate',
                 'select_from', 'select_from', 'select_related', 'select_related', 'invoke', 'invoke', 'array', 'assign_handle',
                 'return', 'stop']
        if self.events:
            kinds += ['generate', 'generate', 'create_event', 'generate_pre']
        if depth > 0:
            kinds += ['if', 'if', 'while', 'foreach', 'foreach']
        if self.in_loop:
            kinds += ['break', 'continue']
        k = r.choice(kinds)
        if k == 'assign' and r.random() < 0.12:
            # a variable that gets a user type: its first value is read from an attribute, a parameter or a
            # variable declared with that type
            ty = r.choice((FLAG, COUNT))
            e = self.udt_read(ty)
            if e is not None:
                vs = self.vars_of(lambda t: t == ty)
                name = r.choice(vs)[0] if vs and r.random() < 0.3 else self.fresh()
                om.STATS['udt-variable'] = om.STATS.get('udt-variable', 0) + 1
                st = om.assign(T(om.var(name), ty), e)
                self.declare(name, ty)
                return st
        if k == 'assign':
            ty = r.choice((INT, INT, STR, BOOL, REAL, ENUM, ENUM2, UID))
            if ty == UID and self.uid_read() is None:
                ty = INT
            vs = self.vars_of(lambda t: t == ty)
            if vs and r.random() < 0.4:
                name = r.choice(vs)[0]
            else:
                name = self.fresh()
            e = self.invocation(ty, 2) if r.random() < 0.15 else None
            prefix = self.legacy_keyword(e) if e is not None else None
            if e is None:
                e = self.expr(ty, 3)
            st = om.assign(T(om.var(name), ty), e, prefix=prefix)
            self.declare(name, ty)
            return st
        if k == 'assign_handle':
            # an instance handle, self or an instance set assigned to a (new or existing) variable
            hs = self.vars_of(lambda t: isinstance(t, tuple) and t[0] in ('inst', 'set'))
            if self.has_self:
                hs.append(('self', ('inst', 'A')))
            if not hs:
                return None
            n, t = r.choice(hs)
            same = [v for v, vt in self.vars_of(lambda x: x == t) if v != n]
            name = r.choice(same) if same and r.random() < 0.3 else self.fresh('h' if t[0] == 'inst' else 'hs')
            src = T(om.self_(), t) if n == 'self' else self.handle(n)
            st = om.assign(T(om.var(name), t), src)
            self.declare(name, t)
            return st
        if k == 'array' and r.random() < 0.35:
            # an element of a two-dimensional array: different subscripts, the second one also an expression
            ty = r.choice((INT, STR))
            mats = self.vars_of(lambda t: t == ('array2', ty))
            name = r.choice(mats)[0] if mats and r.random() < 0.6 else self.fresh('mat')
            e = self.expr(ty, 2)
            st = om.assign(self.element2(name, ty), e)
            self.declare(name, ('array2', ty))
            return st
        if k == 'array':
            ty = r.choice((INT, STR))
            arrs = self.vars_of(lambda t: t == ('array', ty))
            if arrs and r.random() < 0.6:
                name = r.choice(arrs)[0]
                idx = r.randint(0, 2)
            else:
                name = self.fresh('arr')
                idx = r.randint(0, 2)
            e = self.expr(ty, 2)
            st = om.assign(T(om.index(T(om.var(name), ('array', ty)), T(om.integer(idx), INT)), ty), e)
            self.declare(name, ('array', ty))
            return st
        if k == 'attr':
            targets = [(n, t[1]) for n, t in self.inst_vars()]
            if self.has_self:
                targets.append((None, 'A'))
            if not targets:
                return None
            n, kl = r.choice(targets)
            writable = [(a, t) for a, t in CLASSES[kl] if t not in (None, 'unique_id')]
            a, t = r.choice(writable)
            h = T(om.self_(), ('inst', 'A')) if n is None else self.handle(n)
            return om.assign(T(om.field(h, a), t), self.expr(UDT_BASE.get(t, t), 2))
        if k == 'create':
            kl = r.choice(list(CLASSES))
            have = set(t[1] for n, t in self.inst_vars())
            if 'A' in have and 'B' in have and 'L' not in have and r.random() < 0.5:
                kl = 'L'          # makes relate ... using possible
            name = self.fresh('i')
            self.declare(name, ('inst', kl))
            return om.create(name, kl)
        if k == 'create_nv':
            return om.create(None, r.choice(list(CLASSES)))
        if k == 'delete':
            vs = self.inst_vars()
            if not vs:
                return None
            return om.delete(r.choice(vs)[0])
        if k in ('relate', 'unrelate'):
            opts = []
            for rel, fk, tk, ph, using in RELATE:
                fs = [n for n, t in self.inst_vars(fk)] + (['self'] if self.has_self and fk == 'A' else [])
                ts = [n for n, t in self.inst_vars(tk)] + (['self'] if self.has_self and tk == 'A' else [])
                us = [n for n, t in self.inst_vars(using)] if using else [None]
                if fs and ts and us:
                    opts.append((rel, fs, ts, ph, us))
            if not opts:
                return None
            linked = [o for o in opts if o[4] != [None]]
            rel, fs, ts, ph, us = r.choice(linked if linked and r.random() < 0.6 else opts)
            return om.relate(r.choice(fs), r.choice(ts), 'R%d' % rel, ph, r.choice(us), un=(k == 'unrelate'))
        if k == 'select_from':
            kl = r.choice(list(CLASSES))
            card = r.choice(('any', 'many'))
            where = self.expr(BOOL, 2, selected_kind=kl) if r.random() < 0.5 else None
            name = self.result_variable(('set', kl) if card == 'many' else ('inst', kl))
            st = om.select_from(card, name, kl, where)
            self.declare(name, ('set', kl) if card == 'many' else ('inst', kl))
            return st
        if k == 'select_related':
            starts = [(n, t) for n, t in self.vars_of(lambda t: isinstance(t, tuple) and t[0] in ('inst', 'set'))]
            if self.has_self:
                starts.append(('self', ('inst', 'A')))
            if not starts:
                return None
            n, t = r.choice(starts)
            cur = t[1]
            steps = []
            for _ in range(r.randint(1, 3)):
                opts = [x for x in NAV if x[1] == cur]
                if not opts:
                    break
                rel, fk, tk, ph = r.choice(opts)
                steps.append(om.nav_step(tk, 'R%d' % rel, ph))
                cur = tk
            if not steps:
                return None
            card = r.choice(('one', 'any', 'many', 'many'))
            where = self.expr(BOOL, 2, selected_kind=cur) if r.random() < 0.4 else None
            name = self.result_variable(('set', cur) if card == 'many' else ('inst', cur), avoid=n)
            h = T(om.self_(), t) if n == 'self' else self.handle(n)
            st = om.select_related(card, name, h, steps, where)
            self.declare(name, ('set', cur) if card == 'many' else ('inst', cur))
            return st
        if k == 'invoke':
            e = self.invocation(VOID if r.random() < 0.6 else r.choice((INT, STR, BOOL)), 2)
            if e is None:
                return None
            return om.invoke(e, self.legacy_keyword(e))
        if k in ('generate', 'create_event'):
            return self.event_statement(k == 'create_event')
        if k == 'generate_pre':
            evs = self.vars_of(lambda t: t == EVENT)
            if not evs:
                return None
            return om.generate_preexisting(T(om.var(r.choice(evs)[0]), EVENT))
        if k == 'return':
            if self.home in VOID_HOMES:
                return om.return_(None)       # a bare return (possibly with statements before it in its block)
            return om.return_(self.expr(INT, 2))
        if k == 'stop':
            return om.control_stop() if r.random() < 0.3 else None
        if k == 'break':
            return om.break_()
        if k == 'continue':
            return om.continue_()
        if k == 'if':
            cond = self.expr(BOOL, 3)
            then = self.block(depth - 1)
            elifs = [(self.expr(BOOL, 2), self.block(depth - 1)) for _ in range(r.choice((0, 0, 1, 2)))]
            else_ = self.block(depth - 1) if r.random() < 0.5 else None
            return om.if_(cond, then, elifs, else_)
        if k == 'while':
            cond = self.expr(BOOL, 3)
            self.in_loop += 1
            body = self.block(depth - 1)
            self.in_loop -= 1
            return om.while_(cond, body)
        if k == 'foreach':
            sets = self.vars_of(lambda t: isinstance(t, tuple) and t[0] == 'set')
            if not sets:
                return None
            n, t = r.choice(sets)
            lv = self.fresh('e')
            # the loop variable is declared in the enclosing block
            self.declare(lv, ('inst', t[1]))
            self.in_loop += 1
            body = self.block(depth - 1)
            self.in_loop -= 1
            return om.for_each(lv, n, body)
        return None

    def program(self, nstmts=None, depth=2):
        n = nstmts or self.rng.randint(2, 12)
        out = []
        if self.rng.random() < 0.2 and (self.features is None or 'relate' in self.features):
            # the three participants of the linked association R4, so that relate ... using is possible
            for kl in ('A', 'B', 'L'):
                name = self.fresh('i')
                self.declare(name, ('inst', kl))
                out.append(om.create(name, kl))
            n += 3
        for _ in range(n * 3):
            if len(out) >= n:
                break
            s = self.statement(depth)
            if s is None:
                continue
            out.append(s)
            if s.cls in ('ReturnNode', 'ControlNode'):
                break
        if self.home == 'derived':
            out.append(om.assign(T(om.field(T(om.self_(), ('inst', 'A')), 'der'), INT), self.expr(INT, 2)))
        elif self.home in VOID_HOMES:
            if not out or self.rng.random() < 0.2:
                out.append(om.return_(None))
        elif out[-1].cls not in ('ReturnNode', 'ControlNode') if out else True:
            out.append(om.return_(self.expr(INT, 2)))
        return om.body(out)
