'''
BridgePoint (ooaofooa) model synthesis from an abstract class diagram, and the
reference mappings that say what component extraction (C14) and XSD generation
(C20) must produce for that diagram.

The diagram is plain data (classes, ordered typed attributes, identifiers,
simple / linked / subtype relationships with independent multiplicity,
conditionality and phrases at each end, packages / components, enumerations,
user types, functions, external entities with bridges, operations, derived
attributes, constants). Rows are written as SQL INSERT statements with every
column, so that the model can be fed to bridgepoint's loader in any row order.
'''
import re
import uuid

from vf.xmodel import Schema, Rop

CORE = {'void': 0, 'boolean': 1, 'integer': 2, 'real': 3, 'string': 4, 'unique_id': 5,
        'state<State_Model>': 6, 'same_as<Base_Attribute>': 7, 'inst_ref<Object>': 8,
        'inst_ref_set<Object>': 9, 'inst<Event>': 10, 'inst<Mapping>': 11, 'inst_ref<Mapping>': 12,
        'component_ref': 13}
CORE_BASE = 0xba5eda7adef500000000000000000000


def core_id(name):
    return CORE_BASE + CORE[name]


_columns = None


def columns():
    '''{KIND: [(column, TYPE)]} parsed from the SQL text of bridgepoint/schema.py'''
    global _columns
    if _columns is None:
        from bridgepoint import schema as bps
        _columns = {}
        for m in re.finditer(r'CREATE TABLE (\w+)\s*\((.*?)\);', bps.classes, re.S):
            cols = [tuple(a.split()) for a in m.group(2).replace('\n', ' ').split(',') if a.strip()]
            _columns[m.group(1)] = cols
    return _columns


def sql_value(ty, v):
    ty = ty.upper()
    if ty == 'UNIQUE_ID':
        return '"%s"' % uuid.UUID(int=v or 0)
    if ty == 'STRING':
        return "'%s'" % (v or '').replace("'", "''")
    if ty == 'BOOLEAN':
        return '1' if v else '0'
    if ty == 'REAL':
        return '%f' % (v or 0.0)
    return '%d' % int(v or 0)


class Rows(object):
    def __init__(self, first_id=0x1000):
        self.rows = []            # (KIND, {column: value})
        self.next = first_id

    def new_id(self):
        self.next += 1
        return self.next

    def add(self, kind, **values):
        cols = dict(columns()[kind])
        for k in values:
            if k not in cols:
                raise KeyError('%s has no column %s' % (kind, k))
        self.rows.append((kind, values))
        return values

    def statements(self):
        out = []
        for kind, values in self.rows:
            vals = [sql_value(ty, values.get(c)) for c, ty in columns()[kind]]
            out.append('INSERT INTO %s VALUES (%s);' % (kind, ', '.join(vals)))
        return out

    def text(self, rng=None):
        st = self.statements()
        if rng is not None:
            rng.shuffle(st)
        return '\n'.join(st) + '\n'


# ---------------------------------------------------------------------------
# abstract diagram
# ---------------------------------------------------------------------------

# containers whose content belongs to the component under test ('direct': owned by the component itself, without a
# package in between - R8003; 'direct-nested': owned directly by the component nested in it)
IN_COMPONENT = ('comp', 'nested', 'deep', 'direct', 'direct-nested')
ALL_COMPONENT_CONTAINERS = IN_COMPONENT + ('comp2', 'direct2')
IN_SECOND_COMPONENT = ('comp2', 'direct2')
# containers whose classes take part in no relationship
ISOLATED = ('comp2', 'nested', 'deep', 'direct', 'direct-nested', 'direct2')


class Attr(object):
    def __init__(self, name, type=None, derived=None):
        self.name = name
        self.type = type          # type name; None for a referential attribute
        self.derived = derived    # OAL body of a derived attribute, or None
        self.refs = []            # filled from relationships: (rel numb, target class, target attr)


class Cls(object):
    def __init__(self, name, key_letter, numb, attrs, identifiers=(), operations=(), where='pkg'):
        self.name = name
        self.kl = key_letter
        self.numb = numb
        self.attrs = list(attrs)
        self.identifiers = [list(i) for i in identifiers]     # lists of attribute names; I1 first
        self.operations = list(operations)
        self.where = where        # 'pkg' (top package) | 'comp' (package inside the component)

    def attr(self, name):
        for a in self.attrs:
            if a.name == name:
                return a
        raise KeyError(name)


class End(object):
    def __init__(self, kl, mult, cond, phrase=''):
        self.kl = kl
        self.mult = mult      # 0: one, 1: many
        self.cond = cond      # 0: unconditional, 1: conditional
        self.phrase = phrase


class Simple(object):
    def __init__(self, numb, form, part, refs, part_oid=0, where='pkg'):
        self.numb = numb
        self.form = form          # referring end
        self.part = part          # referred end
        self.refs = list(refs)    # [(form attr, part attr)]
        self.part_oid = part_oid
        self.where = where


class Linked(object):
    def __init__(self, numb, one, other, link_kl, link_mult, refs_one, refs_other, where='pkg'):
        self.numb = numb
        self.one = one
        self.other = other
        self.link_kl = link_kl
        self.link_mult = link_mult
        self.refs_one = list(refs_one)       # [(link attr, one attr)]
        self.refs_other = list(refs_other)
        self.where = where


class SubSuper(object):
    def __init__(self, numb, super_kl, subs, where='pkg', super_oid=0):
        self.numb = numb
        self.super_kl = super_kl
        self.subs = list(subs)    # [(sub key letters, [(sub attr, super attr)])]
        self.where = where
        self.super_oid = super_oid     # which identifier of the supertype the subtypes refer to


class Callable_(object):
    def __init__(self, name, ret, params, body, instance_based=False):
        self.name = name
        self.ret = ret            # type name
        self.params = list(params)   # [(name, type name)]
        self.body = body
        self.instance_based = instance_based


class Event(object):
    def __init__(self, numb, meaning, data=()):
        self.numb = numb
        self.meaning = meaning
        self.data = list(data)    # [(name, type name)] in modeled order


class StateMachine(object):
    '''
    kind: 'instance' | 'class'. states: [(name, numb, action body, marker)],
    txns: [(from state name or None for a creation transition, event numb,
    to state name, action body or None, marker)]. The marker is written to
    SM_ACT.Descrip so that a particular action can be found again.
    '''
    def __init__(self, kl, kind, events, states=(), txns=()):
        self.kl = kl
        self.kind = kind
        self.events = list(events)
        self.states = list(states)
        self.txns = list(txns)

    def label(self, ev):
        return '%s%s%d' % (self.kl, '_A' if self.kind == 'class' else '', ev.numb)


class Diagram(object):
    def __init__(self):
        self.state_machines = []
        self.classes = []
        self.rels = []
        self.enums = []           # [(name, [enumerators], where)]
        self.udts = []            # [(name, base type name, where)]
        self.twin_types = []      # [('enum' | 'udt', name, enumerators | core base name, where)]: a further data type carrying the
                                  # name of one that exists in another package (names are unique per package only); no
                                  # attribute or user type refers to it
        self.sdts = []            # structured types [(name, where)] (not supported as attribute type by the XSD generator)
        self.functions = []       # [(Callable_, where)]
        self.ees = []             # [(name, key letters, [Callable_], where)]
        self.constants = []       # [(group, [(name, type, value text)], where)]
        self.component = None     # name of the component or None

    def cls(self, kl):
        for c in self.classes:
            if c.kl == kl:
                return c
        raise KeyError(kl)


# ---------------------------------------------------------------------------
# diagram -> rows
# ---------------------------------------------------------------------------

class Built(object):
    pass


def build(d, rows=None):
    '''-> Rows holding the whole BridgePoint model of diagram *d*'''
    R = rows or Rows()
    B = Built()
    B.rows = R
    sys_id = R.new_id()
    top_pkg = R.new_id()
    R.add('PE_PE', Element_ID=top_pkg, Visibility=1, type=7)
    R.add('EP_PKG', Package_ID=top_pkg, Sys_ID=sys_id, Direct_Sys_ID=sys_id, Name='TopPkg')
    containers = {'pkg': ('pkg', top_pkg)}
    if d.component:
        comp = R.new_id()
        R.add('PE_PE', Element_ID=comp, Visibility=1, Package_ID=top_pkg, type=2)
        R.add('C_C', Id=comp, Name=d.component)
        inner = R.new_id()
        R.add('PE_PE', Element_ID=inner, Visibility=1, Component_ID=comp, type=7)
        R.add('EP_PKG', Package_ID=inner, Direct_Sys_ID=sys_id, Name='Inner')
        containers['comp'] = ('pkg', inner)
        # a second, unrelated component: its content is never in scope of the first
        comp2 = R.new_id()
        R.add('PE_PE', Element_ID=comp2, Visibility=1, Package_ID=top_pkg, type=2)
        R.add('C_C', Id=comp2, Name='Other_' + d.component)
        inner2 = R.new_id()
        R.add('PE_PE', Element_ID=inner2, Visibility=1, Component_ID=comp2, type=7)
        R.add('EP_PKG', Package_ID=inner2, Direct_Sys_ID=sys_id, Name='Inner2')
        containers['comp2'] = ('pkg', inner2)
        # a component nested in the package of the first one: what it holds is contained in the first
        nested = R.new_id()
        R.add('PE_PE', Element_ID=nested, Visibility=1, Package_ID=inner, type=2)
        R.add('C_C', Id=nested, Name='Nested_' + d.component)
        inner3 = R.new_id()
        R.add('PE_PE', Element_ID=inner3, Visibility=1, Component_ID=nested, type=7)
        R.add('EP_PKG', Package_ID=inner3, Direct_Sys_ID=sys_id, Name='Inner3')
        containers['nested'] = ('pkg', inner3)
        # a package inside the package of the component (two package levels below it)
        deep = R.new_id()
        R.add('PE_PE', Element_ID=deep, Visibility=1, Package_ID=inner, type=7)
        R.add('EP_PKG', Package_ID=deep, Direct_Sys_ID=sys_id, Name='Deep')
        containers['deep'] = ('pkg', deep)
        containers['direct'] = ('comp', comp)
        containers['direct-nested'] = ('comp', nested)
        containers['direct2'] = ('comp', comp2)
    B.containers = containers

    def pe(elem_id, where, ty):
        kind, cid = containers.get(where, containers['pkg'])
        if kind == 'comp':
            R.add('PE_PE', Element_ID=elem_id, Visibility=1, Component_ID=cid, type=ty)
        else:
            R.add('PE_PE', Element_ID=elem_id, Visibility=1, Package_ID=cid, type=ty)

    # data types
    dt = dict((n, core_id(n)) for n in CORE)
    B.dt = dt
    for name, enumerators, where in d.enums:
        i = R.new_id()
        dt[name] = i
        pe(i, where, 3)
        R.add('S_DT', DT_ID=i, Name=name)
        R.add('S_EDT', DT_ID=i)
        prev = 0
        for e in enumerators:
            ei = R.new_id()
            R.add('S_ENUM', Enum_ID=ei, Name=e, EDT_DT_ID=i, Previous_Enum_ID=prev)
            prev = ei
    for name, base, where in d.udts:
        i = R.new_id()
        dt[name] = i
        pe(i, where, 3)
        R.add('S_DT', DT_ID=i, Name=name)
        R.add('S_UDT', DT_ID=i, CDT_DT_ID=dt[base], Gen_Type=0)

    for kind_, name, payload, where in d.twin_types:
        i = R.new_id()
        pe(i, where, 3)
        R.add('S_DT', DT_ID=i, Name=name)
        if kind_ == 'enum':
            R.add('S_EDT', DT_ID=i)
            prev = 0
            for e in payload:
                ei = R.new_id()
                R.add('S_ENUM', Enum_ID=ei, Name=e, EDT_DT_ID=i, Previous_Enum_ID=prev)
                prev = ei
        else:
            R.add('S_UDT', DT_ID=i, CDT_DT_ID=dt[payload], Gen_Type=0)

    for name, where in d.sdts:
        i = R.new_id()
        dt[name] = i
        pe(i, where, 3)
        R.add('S_DT', DT_ID=i, Name=name)
        R.add('S_SDT', DT_ID=i)

    # classes and attributes
    obj = {}
    attr_id = {}
    for c in d.classes:
        oid = R.new_id()
        obj[c.kl] = oid
        pe(oid, c.where, 4)
        R.add('O_OBJ', Obj_ID=oid, Name=c.name, Numb=c.numb, Key_Lett=c.kl)
        for suffix, is_set in (('', False), ('_set', True)):
            ti = R.new_id()
            tname = 'inst_ref%s<%s>' % (suffix, c.name)
            dt[tname] = ti
            pe(ti, c.where, 3)
            R.add('S_DT', DT_ID=ti, Name=tname)
            R.add('S_IRDT', DT_ID=ti, isSet=is_set, Obj_ID=oid)
        prev = 0
        for a in c.attrs:
            ai = R.new_id()
            attr_id[(c.kl, a.name)] = ai
            R.add('O_ATTR', Attr_ID=ai, Obj_ID=oid, PAttr_ID=prev, Name=a.name, Root_Nam=a.name,
                  DT_ID=(dt[a.type] if a.type else core_id('same_as<Base_Attribute>')))
            prev = ai
            if a.type is not None:
                R.add('O_BATTR', Attr_ID=ai, Obj_ID=oid)
                if a.derived is not None:
                    R.add('O_DBATTR', Attr_ID=ai, Obj_ID=oid, Action_Semantics_internal=a.derived, Suc_Pars=1)
                else:
                    R.add('O_NBATTR', Attr_ID=ai, Obj_ID=oid)
        for n in range(max(3, len(c.identifiers))):
            R.add('O_ID', Oid_ID=n, Obj_ID=oid)
            if n < len(c.identifiers):
                for an in c.identifiers[n]:
                    R.add('O_OIDA', Attr_ID=attr_id[(c.kl, an)], Obj_ID=oid, Oid_ID=n, localAttributeName=an)
        prev = 0
        for op in c.operations:
            ti = R.new_id()
            R.add('O_TFR', Tfr_ID=ti, Obj_ID=oid, Name=op.name, DT_ID=dt[op.ret],
                  Instance_Based=1 if op.instance_based else 0, Action_Semantics_internal=op.body,
                  Suc_Pars=1, Previous_Tfr_ID=prev)
            prev = ti
            pprev = 0
            for pn, pt in op.params:
                pi = R.new_id()
                R.add('O_TPARM', TParm_ID=pi, Tfr_ID=ti, Name=pn, DT_ID=dt[pt], Previous_TParm_ID=pprev)
                pprev = pi
    B.obj = obj
    B.attr_id = attr_id

    # relationships
    def oir(kl, rel):
        i = R.new_id()
        R.add('R_OIR', Obj_ID=obj[kl], Rel_ID=rel, OIR_ID=i)
        return i

    def rto(kl, rel, oid_n, keys):
        '''referred end: R_OIR + R_RTO + one O_RTIDA per identifying attribute'''
        i = oir(kl, rel)
        R.add('R_RTO', Obj_ID=obj[kl], Rel_ID=rel, OIR_ID=i, Oid_ID=oid_n)
        for k in keys:
            R.add('O_RTIDA', Attr_ID=attr_id[(kl, k)], Obj_ID=obj[kl], Oid_ID=oid_n, Rel_ID=rel, OIR_ID=i)
        return i

    def rgo(kl, rel):
        i = oir(kl, rel)
        R.add('R_RGO', Obj_ID=obj[kl], Rel_ID=rel, OIR_ID=i)
        return i

    ratt_done = set()

    def refs(src_kl, rgo_oir, tgt_kl, rto_oir, rel, oid_n, pairs):
        '''referential attributes of src_kl formalising rel towards tgt_kl'''
        for sa, ta in pairs:
            said = attr_id[(src_kl, sa)]
            taid = attr_id[(tgt_kl, ta)]
            R.add('O_REF', Obj_ID=obj[src_kl], RObj_ID=obj[tgt_kl], ROid_ID=oid_n, RAttr_ID=taid, Rel_ID=rel,
                  OIR_ID=rgo_oir, ROIR_ID=rto_oir, Attr_ID=said, ARef_ID=R.new_id())
            if (src_kl, sa) not in ratt_done:
                ratt_done.add((src_kl, sa))
                base_kl, base_attr = base_of(d, tgt_kl, ta)
                R.add('O_RATTR', Attr_ID=said, Obj_ID=obj[src_kl], BAttr_ID=attr_id[(base_kl, base_attr)],
                      BObj_ID=obj[base_kl], Ref_Mode=1, BaseAttrName=base_attr)

    for r in d.rels:
        rel = R.new_id()
        pe(rel, r.where, 9)
        R.add('R_REL', Rel_ID=rel, Numb=r.numb)
        if isinstance(r, Simple):
            R.add('R_SIMP', Rel_ID=rel)
            po = rto(r.part.kl, rel, r.part_oid, [p for _, p in r.refs])
            R.add('R_PART', Obj_ID=obj[r.part.kl], Rel_ID=rel, OIR_ID=po, Mult=r.part.mult, Cond=r.part.cond,
                  Txt_Phrs=r.part.phrase)
            fo = rgo(r.form.kl, rel)
            R.add('R_FORM', Obj_ID=obj[r.form.kl], Rel_ID=rel, OIR_ID=fo, Mult=r.form.mult, Cond=r.form.cond,
                  Txt_Phrs=r.form.phrase)
            refs(r.form.kl, fo, r.part.kl, po, rel, r.part_oid, r.refs)
        elif isinstance(r, Linked):
            R.add('R_ASSOC', Rel_ID=rel)
            oo = rto(r.one.kl, rel, 0, [p for _, p in r.refs_one])
            R.add('R_AONE', Obj_ID=obj[r.one.kl], Rel_ID=rel, OIR_ID=oo, Mult=r.one.mult, Cond=r.one.cond,
                  Txt_Phrs=r.one.phrase)
            to = rto(r.other.kl, rel, 0, [p for _, p in r.refs_other])
            R.add('R_AOTH', Obj_ID=obj[r.other.kl], Rel_ID=rel, OIR_ID=to, Mult=r.other.mult, Cond=r.other.cond,
                  Txt_Phrs=r.other.phrase)
            lo = rgo(r.link_kl, rel)
            R.add('R_ASSR', Obj_ID=obj[r.link_kl], Rel_ID=rel, OIR_ID=lo, Mult=r.link_mult)
            refs(r.link_kl, lo, r.one.kl, oo, rel, 0, r.refs_one)
            refs(r.link_kl, lo, r.other.kl, to, rel, 0, r.refs_other)
        else:
            R.add('R_SUBSUP', Rel_ID=rel)
            keys = []
            for _, pairs in r.subs:
                for _, p in pairs:
                    if p not in keys:
                        keys.append(p)
            so = rto(r.super_kl, rel, r.super_oid, keys)
            R.add('R_SUPER', Obj_ID=obj[r.super_kl], Rel_ID=rel, OIR_ID=so)
            for kl, pairs in r.subs:
                go = rgo(kl, rel)
                R.add('R_SUB', Obj_ID=obj[kl], Rel_ID=rel, OIR_ID=go)
                refs(kl, go, r.super_kl, so, rel, r.super_oid, pairs)

    # functions, external entities, constants
    for fn, where in d.functions:
        si = R.new_id()
        pe(si, where, 1)
        R.add('S_SYNC', Sync_ID=si, Name=fn.name, Action_Semantics_internal=fn.body, DT_ID=dt[fn.ret], Suc_Pars=1)
        prev = 0
        for pn, pt in fn.params:
            pi = R.new_id()
            R.add('S_SPARM', SParm_ID=pi, Sync_ID=si, Name=pn, DT_ID=dt[pt], Previous_SParm_ID=prev)
            prev = pi
    for name, kl, bridges, where in d.ees:
        ei = R.new_id()
        pe(ei, where, 5)
        R.add('S_EE', EE_ID=ei, Name=name, Key_Lett=kl)
        for b in bridges:
            bi = R.new_id()
            R.add('S_BRG', Brg_ID=bi, EE_ID=ei, Name=b.name, DT_ID=dt[b.ret], Action_Semantics_internal=b.body,
                  Suc_Pars=1)
            prev = 0
            for pn, pt in b.params:
                pi = R.new_id()
                R.add('S_BPARM', BParm_ID=pi, Brg_ID=bi, Name=pn, DT_ID=dt[pt], Previous_BParm_ID=prev)
                prev = pi
    for sm in d.state_machines:
        smi = R.new_id()
        R.add('SM_SM', SM_ID=smi)
        R.add('SM_MOORE', SM_ID=smi)
        R.add('SM_ISM' if sm.kind == 'instance' else 'SM_ASM', SM_ID=smi, Obj_ID=obj[sm.kl])
        evt = {}
        for ev in sm.events:
            ei = R.new_id()
            evt[ev.numb] = ei
            R.add('SM_EVT', SMevt_ID=ei, SM_ID=smi, Numb=ev.numb, Mning=ev.meaning, Drv_Lbl=sm.label(ev))
            R.add('SM_SEVT', SMevt_ID=ei, SM_ID=smi)
            R.add('SM_LEVT', SMevt_ID=ei, SM_ID=smi)
            prev = 0
            for dn, dty in ev.data:
                di = R.new_id()
                R.add('SM_EVTDI', SMedi_ID=di, SM_ID=smi, Name=dn, DT_ID=dt[dty], SMevt_ID=ei, Previous_SMedi_ID=prev)
                prev = di
        stt = {}
        for name, numb, body, marker in sm.states:
            si = R.new_id()
            stt[name] = si
            R.add('SM_STATE', SMstt_ID=si, SM_ID=smi, Name=name, Numb=numb)
            ai = R.new_id()
            R.add('SM_MOAH', Act_ID=ai, SM_ID=smi, SMstt_ID=si)
            R.add('SM_AH', Act_ID=ai, SM_ID=smi)
            R.add('SM_ACT', Act_ID=ai, SM_ID=smi, Suc_Pars=1, Action_Semantics_internal=body, Descrip=marker)
        for frm, evn, to, body, marker in sm.txns:
            ti = R.new_id()
            R.add('SM_TXN', Trans_ID=ti, SM_ID=smi, SMstt_ID=stt[to])
            if frm is None:
                R.add('SM_CRTXN', Trans_ID=ti, SM_ID=smi, SMevt_ID=evt[evn])
            else:
                R.add('SM_NSTXN', Trans_ID=ti, SM_ID=smi, SMstt_ID=stt[frm], SMevt_ID=evt[evn])
                R.add('SM_SEME', SMstt_ID=stt[frm], SMevt_ID=evt[evn], SM_ID=smi)
            if body is not None:
                ai = R.new_id()
                R.add('SM_TAH', Act_ID=ai, SM_ID=smi, Trans_ID=ti)
                R.add('SM_AH', Act_ID=ai, SM_ID=smi)
                R.add('SM_ACT', Act_ID=ai, SM_ID=smi, Suc_Pars=1, Action_Semantics_internal=body, Descrip=marker)
    for group, items, where in d.constants:
        gi = R.new_id()
        pe(gi, where, 10)
        R.add('CNST_CSP', Constant_Spec_ID=gi, InformalGroupName=group)
        prev = 0
        for name, ty, value in items:
            ci = R.new_id()
            R.add('CNST_SYC', Const_ID=ci, Name=name, DT_ID=dt[ty], Constant_Spec_ID=gi, Previous_Const_ID=prev)
            R.add('CNST_LFSC', Const_ID=ci)
            R.add('CNST_LSC', Const_ID=ci, Value=value)
            prev = ci
    return B


def base_of(d, kl, attr):
    '''the non-referential attribute a (possibly referential) attribute finally refers to'''
    seen = set()
    while True:
        a = d.cls(kl).attr(attr)
        if a.type is not None or (kl, attr) in seen:
            return kl, attr
        seen.add((kl, attr))
        nxt = referred(d, kl, attr)
        if nxt is None:
            return kl, attr
        kl, attr = nxt


def referred(d, kl, attr):
    for r in d.rels:
        if isinstance(r, Simple) and r.form.kl == kl:
            for sa, ta in r.refs:
                if sa == attr:
                    return r.part.kl, ta
        elif isinstance(r, Linked) and r.link_kl == kl:
            for sa, ta in r.refs_one:
                if sa == attr:
                    return r.one.kl, ta
            for sa, ta in r.refs_other:
                if sa == attr:
                    return r.other.kl, ta
        elif isinstance(r, SubSuper):
            for skl, pairs in r.subs:
                if skl == kl:
                    for sa, ta in pairs:
                        if sa == attr:
                            return r.super_kl, ta
    return None


# ---------------------------------------------------------------------------
# reference mapping for component extraction (C14)
# ---------------------------------------------------------------------------

def core_type_of(d, type_name):
    '''pyxtuml core type name of a BridgePoint type, None when unsupported'''
    if type_name in ('boolean', 'integer', 'real', 'string', 'unique_id'):
        return type_name.upper()
    for n, _, _ in d.enums:
        if n == type_name:
            return 'INTEGER'
    for n, base, _ in d.udts:
        if n == type_name:
            return core_type_of(d, base)
    return None


def attr_core_type(d, kl, attr):
    bkl, battr = base_of(d, kl, attr)
    return core_type_of(d, d.cls(bkl).attr(battr).type)


def card(mult, cond):
    return ('M' if mult else '1') + ('C' if cond else '')


def reference_component(d, derived=False, component=False):
    '''
    -> (classes {KL: [(attr, TYPE)]}, identifiers {KL: {name: (attrs)}}, associations as a list of tuples
    (rel_id, src, frozenset(key pairs), src card, src phrase, tgt, tgt card, tgt phrase))
    '''
    scope = lambda where: (not component) or where in IN_COMPONENT
    classes, idents = {}, {}
    for c in d.classes:
        if not scope(c.where):
            continue
        attrs = []
        for a in c.attrs:
            if a.derived is not None and not derived:
                continue
            ty = attr_core_type(d, c.kl, a.name)
            if ty is None:
                continue
            attrs.append((a.name, ty))
        classes[c.kl] = attrs
        ids = {}
        for n, names in enumerate(c.identifiers):
            if not names:
                continue
            if not derived and any(c.attr(x).derived is not None for x in names):
                continue
            ids['I%d' % (n + 1)] = frozenset(names)
        idents[c.kl] = ids
    assocs = []
    for r in d.rels:
        if not scope(r.where):
            continue
        rid = 'R%d' % r.numb
        if isinstance(r, Simple):
            reflexive = r.form.kl == r.part.kl
            assocs.append((rid, r.form.kl, frozenset(r.refs), card(r.form.mult, r.form.cond),
                           r.part.phrase if reflexive else '',
                           r.part.kl, card(r.part.mult, r.part.cond), r.form.phrase if reflexive else ''))
        elif isinstance(r, Linked):
            reflexive = r.one.kl == r.other.kl
            for side1, side2, pairs in ((r.one, r.other, r.refs_one), (r.other, r.one, r.refs_other)):
                assocs.append((rid, r.link_kl, frozenset(pairs), card(side2.mult, side2.cond),
                               side1.phrase if reflexive else '',
                               side1.kl, '1', side2.phrase if reflexive else ''))
        else:
            for kl, pairs in r.subs:
                assocs.append((rid, kl, frozenset(pairs), '1C', '', r.super_kl, '1', ''))
    return classes, idents, sorted(assocs, key=repr)


def observed_component(m):
    '''the same structure read from a built pyxtuml metamodel'''
    classes = dict((mc.kind, [(n, t.upper()) for n, t in mc.attributes]) for mc in m.metaclasses.values())
    idents = dict((mc.kind, dict((n, frozenset(a)) for n, a in mc.indices.items())) for mc in m.metaclasses.values())
    assocs = []
    for ass in m.associations:
        sl, tl = ass.source_link, ass.target_link
        assocs.append((ass.rel_id, sl.to_metaclass.kind, frozenset(zip(ass.source_keys, ass.target_keys)),
                       sl.cardinality, tl.phrase, tl.to_metaclass.kind, tl.cardinality, sl.phrase))
    return classes, idents, sorted(assocs, key=repr)


# ---------------------------------------------------------------------------
# reference mapping for XSD generation (C20)
# ---------------------------------------------------------------------------

XS_CORE = {'boolean': 'xs:boolean', 'integer': 'xs:integer', 'real': 'xs:decimal', 'string': 'xs:string',
           'unique_id': 'xs:integer'}


def xsd_type_name(d, type_name):
    '''the name an attribute or user type refers to in the XSD, None when unsupported'''
    if type_name in XS_CORE:
        return type_name
    if any(n == type_name for n, _, _ in d.enums):
        return type_name
    if any(n == type_name for n, _, _ in d.udts):
        return type_name
    return None


def resolve_udt(d, type_name):
    seen = set()
    while True:
        base = [b for n, b, _ in d.udts if n == type_name]
        if not base or type_name in seen:
            return type_name
        seen.add(type_name)
        type_name = base[0]


def reference_xsd(d, component='comp'):
    '''
    -> (types {name: ('restriction', base) | ('enum', [values])}, classes {KL: {attr: type}})
    for the component of diagram *d* (or, with component='comp2', for the second component); types: global
    ones and those inside that component. An attribute keeps its type name also when the type lives in another
    component (only the declaration of the type is a matter of scope).
    '''
    inside = IN_COMPONENT if component == 'comp' else IN_SECOND_COMPONENT
    in_scope = lambda where: where in inside or where not in ALL_COMPONENT_CONTAINERS
    types = dict((n, ('restriction', b)) for n, b in XS_CORE.items())
    for name, values, where in d.enums:
        if in_scope(where):
            types[name] = ('enum', list(values))
    for name, base, where in d.udts:
        b = xsd_type_name(d, base)
        if b is not None and in_scope(where):
            types[name] = ('restriction', b)
    classes = {}
    for c in d.classes:
        if c.where not in inside:
            continue
        attrs = {}
        for a in c.attrs:
            if a.derived is not None:
                continue
            bkl, battr = base_of(d, c.kl, a.name)
            t = resolve_udt(d, d.cls(bkl).attr(battr).type)
            if t in XS_CORE or any(n == t for n, _, _ in d.enums):
                attrs[a.name] = t
        classes[c.kl] = attrs
    return types, classes


def reference_xsd_twins(d, component='comp'):
    '''the further declarations expected for the same-named types of d.twin_types: [(name, definition)]'''
    inside = IN_COMPONENT if component == 'comp' else IN_SECOND_COMPONENT
    out = []
    for kind_, name, payload, where in d.twin_types:
        if where in inside or where not in ALL_COMPONENT_CONTAINERS:
            out.append((name, ('enum', list(payload)) if kind_ == 'enum' else ('restriction', payload)))
    return out


def observed_xsd(root):
    '''the same structure read from an ElementTree / minidom-reparsed schema element'''
    def local(tag):
        return tag.split('}')[-1].split(':')[-1]
    types, classes, problems = {}, {}, []
    further = []
    comps = []
    for ch in list(root):
        if local(ch.tag) == 'simpleType':
            name = ch.get('name')
            res = [x for x in list(ch) if local(x.tag) == 'restriction']
            again = name in types
            if len(res) != 1:
                problems.append('simple type %r has %d restrictions' % (name, len(res)))
                continue
            enums = [x.get('value') for x in list(res[0]) if local(x.tag) == 'enumeration']
            base = res[0].get('base')
            if base == 'xs:string' and (enums or name not in XS_CORE) and name != 'string':
                definition = ('enum', enums)
            else:
                definition = ('restriction', base)
            if again:
                # a second declaration under one name: right exactly when the model holds two data types of that name
                further.append((name, definition))
            else:
                types[name] = definition
        elif local(ch.tag) == 'element':
            comps.append(ch)
    if len(comps) != 1:
        problems.append('%d component elements' % len(comps))
    for comp in comps:
        for el in comp.iter():
            if local(el.tag) == 'element' and el is not comp:
                kl = el.get('name')
                if kl in classes:
                    problems.append('class %r declared twice' % kl)
                attrs = {}
                for a in el.iter():
                    if local(a.tag) == 'attribute':
                        if a.get('name') in attrs:
                            problems.append('attribute %s.%s declared twice' % (kl, a.get('name')))
                        attrs[a.get('name')] = a.get('type')
                classes[kl] = attrs
    return types, classes, problems, further
