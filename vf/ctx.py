'''
Per-shard context handed to a check: counters, distinct-case bookkeeping,
samples, violations, monitor evaluation counts and reach information.
'''
import contextlib
import hashlib
import signal
import json
import random
import sys
import time
import traceback


def h64(obj):
    if not isinstance(obj, (bytes, str)):
        obj = json.dumps(obj, sort_keys=True, default=repr)
    if isinstance(obj, str):
        obj = obj.encode('utf-8', 'surrogatepass')
    return hashlib.blake2b(obj, digest_size=8).hexdigest()


class Stop(Exception):
    '''raised to leave a workload early once enough violations were recorded'''


class BudgetExceeded(BaseException):
    '''
    CPU-time budget of a guarded region exhausted (ITIMER_VIRTUAL, i.e. CPU
    seconds of this process, never wall clock). Derives from BaseException so
    that the code under test cannot swallow it.
    '''


@contextlib.contextmanager
def cpu_budget(seconds):
    def handler(signum, frame):
        raise BudgetExceeded('more than %s CPU seconds' % seconds)
    old = signal.signal(signal.SIGVTALRM, handler)
    signal.setitimer(signal.ITIMER_VIRTUAL, seconds)
    try:
        yield
    finally:
        signal.setitimer(signal.ITIMER_VIRTUAL, 0)
        signal.signal(signal.SIGVTALRM, old)


class Ctx(object):
    MAX_VIOLATIONS = 25
    MAX_SAMPLES = 6

    def __init__(self, check_id, tier, seed, shard, nshards, root, params=None):
        self.check_id = check_id
        self.tier = tier
        self.seed = seed
        self.shard = shard
        self.nshards = nshards
        self.root = root
        self.params = params or {}
        self.rng = random.Random((seed * 1000003) ^ (shard * 7919 + 17))
        self.counters = {}
        self.monitors = {}
        self._later = {}
        self.evaluations = 0
        self.distinct = set()
        self.distinct_enum = 0
        self.samples = []
        self.violations = []
        self.per_key = {}
        self.known_seen = {}
        self.exhaustive = {}
        self.notes = {}
        self.t0 = time.time()

    # -- hard CPU budget (works inside C code such as the re engine) --------
    def guard(self, seconds, key, case):
        '''
        Arm a CPU-time budget whose expiry terminates this process (default
        action of SIGVTALRM), after leaving *case* in a side file; the runner
        turns the death into a violation with mechanism key *key*.
        '''
        path = self.params.get('__current__')
        if path:
            with open(path, 'w') as f:
                json.dump(dict(key=key, case=jsonable(case), budget_cpu_s=seconds), f)
        signal.signal(signal.SIGVTALRM, signal.SIG_DFL)
        signal.setitimer(signal.ITIMER_VIRTUAL, seconds)

    def unguard(self):
        signal.setitimer(signal.ITIMER_VIRTUAL, 0)

    # -- bookkeeping -------------------------------------------------------
    def count(self, key, n=1):
        self.counters[key] = self.counters.get(key, 0) + n

    def hit(self, monitor, n=1):
        self.monitors[monitor] = self.monitors.get(monitor, 0) + n

    def later(self, name, probe, what='object'):
        '''
        Objects of an earlier case stay alive while the next case runs in the same process. *probe* is a
        function without arguments that observes such an object (e.g. serializes a metamodel); it is
        evaluated now, and evaluated again - and compared - when the next probe with the same *name*
        is registered. State kept in module or class level by the library (caches, shared default
        containers) shows as an earlier object that changed although nobody touched it.
        '''
        prev = self._later.get(name)
        if prev is not None:
            old_probe, old_value, old_what = prev
            self.hit('EarlierObject.rechecked')
            try:
                now = old_probe()
            except Exception as e:                      # noqa
                now = 'raised %s: %s' % (type(e).__name__, str(e)[:200])
            if now != old_value:
                self.violation('earlier-object-changed/%s' % name,
                               'the %s of the previous case was observed again after this case ran in the same '
                               'process and differs:\n--- before\n%s\n--- now\n%s'
                               % (old_what, str(old_value)[:1500], str(now)[:1500]),
                               case=dict(name=name))
        try:
            value = probe()
        except Exception:                                # noqa
            self._later.pop(name, None)
            return
        self._later[name] = (probe, value, what)

    def later_refresh(self, name):
        '''the case itself changed the object on purpose: what is compared later is its state from now on'''
        prev = self._later.get(name)
        if prev is not None:
            probe, _, what = prev
            try:
                self._later[name] = (probe, probe(), what)
            except Exception:                            # noqa
                self._later.pop(name, None)

    def case(self, canon, nontrivial=True, sample=None):
        '''
        Record one explored case. *canon* is a canonical (hashable/jsonable)
        description used for the distinct count; only non-trivial cases count
        as distinct.
        '''
        self.evaluations += 1
        if nontrivial:
            self.distinct.add(h64(canon))
            if sample is not None and len(self.samples) < self.MAX_SAMPLES:
                if self.rng.random() < 0.05 or not self.samples:
                    self.samples.append(sample)

    def case_enum(self, nontrivial=True, n=1):
        '''
        Record case(s) of a duplicate-free enumeration: they are distinct by
        construction, so only a counter is kept (no hash per case).
        '''
        self.evaluations += n
        if nontrivial:
            self.distinct_enum += n

    def sample(self, obj):
        if len(self.samples) < self.MAX_SAMPLES:
            self.samples.append(obj)

    def violation(self, key, what, case=None, **extra):
        '''
        Record a violation. *key* is the mechanism key used to match the
        known-findings file, *what* a one-line description, *case* whatever is
        needed to replay it.
        '''
        v = dict(key=key, what=what, case=case, shard=self.shard)
        v.update(extra)
        self.count('violations')
        # at most three records per mechanism key; the workload goes on (a known finding that
        # shows up often must not starve the rest of the check), unless many different
        # mechanisms fail
        n = self.per_key.get(key, 0)
        self.per_key[key] = n + 1
        if n < 3:
            self.violations.append(v)
        if len(self.per_key) >= 12:
            raise Stop()

    def set_exhaustive(self, name, bound, n):
        self.exhaustive[name] = dict(bound=bound, cases=n)

    def chunk(self, seq):
        '''this shard's slice of an enumeration (round robin)'''
        for i, x in enumerate(seq):
            if i % self.nshards == self.shard:
                yield x

    def share(self, n):
        '''this shard's share of *n* random cases'''
        base, rest = divmod(n, self.nshards)
        return base + (1 if self.shard < rest else 0)

    def result(self):
        return dict(counters=self.counters, monitors=self.monitors,
                    evaluations=self.evaluations,
                    distinct=sorted(self.distinct), distinct_enum=self.distinct_enum, samples=self.samples,
                    violations=self.violations, violation_counts=self.per_key, exhaustive=self.exhaustive,
                    notes=self.notes, wall=time.time() - self.t0)


def jsonable(x, depth=0):
    '''best-effort conversion of a case description to JSON'''
    if depth > 8:
        return repr(x)
    if isinstance(x, (str, int, float, bool)) or x is None:
        if isinstance(x, float) and (x != x or x in (float('inf'), float('-inf'))):
            return repr(x)
        return x
    if isinstance(x, dict):
        return {str(k): jsonable(v, depth + 1) for k, v in x.items()}
    if isinstance(x, (list, tuple, set, frozenset)):
        return [jsonable(v, depth + 1) for v in x]
    return repr(x)
