'''
Random xtUML schemas and populations, an independent serializer for the SQL
dialect, the independent key join, and the structural snapshot ("snap") used
to compare metamodels through the public read API only.
'''
import uuid

from vf.xmodel import Schema, Rop

CORE = ['BOOLEAN', 'INTEGER', 'REAL', 'STRING', 'UNIQUE_ID']
KEYWORDS = ['CREATE', 'FALSE', 'FROM', 'INDEX', 'INSERT', 'INTO', 'ON', 'PHRASE', 'REF_ID',
            'ROP', 'TABLE', 'TO', 'TRUE', 'UNIQUE', 'VALUES']
CARD_WORDS = ['M', 'MC']
PLAIN = ['A', 'B', 'Cls', 'my_class', 'X1', 'Name', 'Id', 'value', '_u', 'Dog', 'self', 'Rx', 'R_1',
         'O_ATTR', 'S_DT', 'type', 'Attr']

HOSTILE_STRINGS = ['', "'", "''", "it's", "a''b", '--', '-- comment', "x -- y'z", 'line1\nline2', '\n',
                   'nul\x00byte', '\x00', u'\xe5\xe4\xf6', u'中文', u'\U0001f600', 'tab\there',
                   ');', "');\nINSERT INTO X VALUES ('", '"', '"quoted"', '\\', "\\'", ' ', 'CREATE TABLE',
                   'a' * 300, '\r\n', '%s %d', '1C',
                   # code point sequences that are not in a Unicode normal form, and other separators / controls
                   u'e\u0301', u'\u2126', u'\u212b', u'\u1100\u1161', u'a\u030a\u0323', u'\ufb01', u'\xa0',
                   u'x\u2028y', u'x\u2029', u'\x85', 'a\x0cb', '\x1f', '\x1a', u'\ufeffbom', '\x7f', '\x0b']
HOSTILE_INTS = [0, 1, -1, 7, -42, 2 ** 31, -2 ** 31, 2 ** 63, 2 ** 64 + 1, -2 ** 70, 10 ** 30]
HOSTILE_REALS = [0.0, 1.0, -1.0, 0.5, -0.125, 3.141593, 1e10, -1e15, 123456.789012, 1e-3, 2.5e-6,
                 1e20, -7.25, 1e-7, 0.9999999]
HOSTILE_IDS = [0, 1, 2 ** 64, 2 ** 127, 2 ** 128 - 1, 12345678901234567890]
KEY_REALS = [0.0, 0.5, -0.25, 1.125, 2.0, -3.75, 10.5, 100.0625]


def spell_type(rng, ty):
    k = rng.random()
    if k < 0.5:
        return ty
    if k < 0.75:
        return ty.lower()
    if k < 0.85:
        return ty.capitalize()
    return ''.join(c.upper() if rng.random() < 0.5 else c.lower() for c in ty)


def pick_name(rng, used, hostile=True):
    for _ in range(200):
        k = rng.random()
        if hostile and k < 0.25:
            n = rng.choice(KEYWORDS)
            n = rng.choice((n, n.lower(), n.capitalize()))
        elif hostile and k < 0.32:
            n = rng.choice(CARD_WORDS)
        elif k < 0.7:
            n = rng.choice(PLAIN)
        else:
            n = rng.choice('abcdefgxyzABCKLQ_') + ''.join(rng.choice('abcxyz_0123456789ABC')
                                                        for _ in range(rng.randint(0, 6)))
        if n.upper() in used:
            continue
        # outside the lexical domain of the dialect: R<digits> is a relationship number
        if len(n) > 1 and n[0] == 'R' and n[1:].isdigit():
            continue
        used.add(n.upper())
        return n
    raise AssertionError('name space exhausted')


def random_value(rng, ty, key=False, unique_counter=None):
    ty = ty.upper()
    if ty == 'BOOLEAN':
        return rng.random() < 0.5
    if ty == 'INTEGER':
        return rng.choice(HOSTILE_INTS) if rng.random() < 0.7 else rng.randint(-10 ** 6, 10 ** 6)
    if ty == 'REAL':
        if key:
            return rng.choice(KEY_REALS)
        return rng.choice(HOSTILE_REALS) if rng.random() < 0.7 else round(rng.uniform(-1e4, 1e4), rng.randint(0, 9))
    if ty == 'STRING':
        if rng.random() < 0.75:
            return rng.choice(HOSTILE_STRINGS)
        return ''.join(rng.choice("ab'- \n\x00\xe9;,()\"1") for _ in range(rng.randint(0, 12)))
    if ty == 'UNIQUE_ID':
        return rng.choice(HOSTILE_IDS) if rng.random() < 0.4 else rng.getrandbits(rng.choice((8, 64, 128)))
    raise AssertionError(ty)


def is_null(ty, v):
    '''the relational null notion: unset, 0 for an id, the empty string'''
    ty = ty.upper()
    if v is None:
        return True
    if ty == 'UNIQUE_ID':
        return v == 0
    if ty == 'STRING':
        return v == ''
    return False


def null_of(ty):
    return {'BOOLEAN': False, 'INTEGER': 0, 'REAL': 0.0, 'STRING': '', 'UNIQUE_ID': 0}[ty.upper()]


SHAPES = {}       # shapes produced so far (evidence)


def random_schema(rng, hostile_names=True, max_classes=5, shapes=None, max_attrs=5):
    '''
    -> Schema. Every association end gets its own multiplicity, phrases only
    where the direction needs them (reflexive, two formalisations to one class).
    '''
    used = set()
    classes = []
    nclasses = rng.randint(1, max_classes)
    for _ in range(nclasses):
        kind = pick_name(rng, used, hostile_names)
        aused = set()
        attrs = []
        for _ in range(rng.randint(0, max_attrs)):
            attrs.append((pick_name(rng, aused, hostile_names), spell_type(rng, rng.choice(CORE))))
        classes.append([kind, attrs, aused])
    rops = []
    uniques = []
    rel = 0
    shapes = shapes or ('simple', 'simple', 'reflexive', 'assoc', 'multikey', 'subsuper', 'shared', 'chained', 'samekey')
    for _ in range(rng.randint(0, 5)):
        shape = rng.choice(shapes)
        rel += rng.randint(1, 3)
        if shape == 'simple':
            s, t = rng.choice(classes), rng.choice(classes)
            if s is t:
                continue
            ty = rng.choice(CORE)
            key = add_attr(rng, t, ty, hostile_names)
            ref = add_attr(rng, s, ty, hostile_names)
            # a phrase is optional at each end on its own
            sp, tp = rng.choice((('', ''), ('', ''), ('owns', ''), ('', 'is owned by'), ('has', 'belongs to')))
            rops.append(Rop(rel, s[0], [ref], rng.choice(('1', '1C', 'M', 'MC')), sp,
                            t[0], [key], rng.choice(('1', '1C')), tp))
        elif shape == 'multikey':
            s, t = rng.choice(classes), rng.choice(classes)
            if s is t:
                continue
            tys = [rng.choice(CORE) for _ in range(rng.randint(2, 3))]
            if rng.random() < 0.4:
                # all components of one type (two rows may then carry the same values the other way round)
                tys = [rng.choice(('INTEGER', 'STRING', 'UNIQUE_ID', 'REAL'))] * len(tys)
            keys = [add_attr(rng, t, ty, hostile_names) for ty in tys]
            refs = [add_attr(rng, s, ty, hostile_names) for ty in tys]
            rops.append(Rop(rel, s[0], refs, rng.choice(('M', 'MC', '1C')), '',
                            t[0], keys, rng.choice(('1', '1C')), ''))
        elif shape == 'samekey':
            # a further association through an identifier another association already refers to, its attributes
            # listed in another order when there are several
            earlier = [r for r in rops if r.src != r.tgt]
            if not earlier:
                continue
            e = rng.choice(earlier)
            t = [c for c in classes if c[0] == e.tgt][0]
            s = rng.choice([c for c in classes if c is not t] or [None])
            if s is None:
                continue
            order = list(range(len(e.tgt_keys)))
            rng.shuffle(order)
            keys = [e.tgt_keys[i] for i in order]
            tys = [dict((a.upper(), ty) for a, ty in t[1])[k.upper()] for k in keys]
            refs = [add_attr(rng, s, ty.upper(), hostile_names) for ty in tys]
            rops.append(Rop(rel, s[0], refs, rng.choice(('M', 'MC', '1C')), '', t[0], keys, rng.choice(('1', '1C')), ''))
            if len(keys) > 1 and keys != list(e.tgt_keys):
                SHAPES['identifier-referred-to-in-two-attribute-orders'] = \
                    SHAPES.get('identifier-referred-to-in-two-attribute-orders', 0) + 1
        elif shape == 'reflexive':
            c = rng.choice(classes)
            ty = rng.choice(('UNIQUE_ID', 'INTEGER', 'STRING'))
            key = add_attr(rng, c, ty, hostile_names)
            ref = add_attr(rng, c, ty, hostile_names)
            p1, p2 = rng.choice((('precedes', 'succeeds'), ('is parent of', 'is child of'),
                                 ('one', 'other'), ('a-b', 'b a'), ('next', ''), ('', 'previous')))
            rops.append(Rop(rel, c[0], [ref], rng.choice(('1C', 'MC')), p1, c[0], [key], '1C', p2))
        elif shape == 'assoc':
            if len(classes) < 2:
                continue
            link = rng.choice(classes)
            one = rng.choice([c for c in classes if c is not link])
            other = rng.choice([c for c in classes if c is not link])
            ty1, ty2 = rng.choice(('UNIQUE_ID', 'INTEGER')), rng.choice(('UNIQUE_ID', 'STRING'))
            k1 = add_attr(rng, one, ty1, hostile_names)
            k2 = add_attr(rng, other, ty2, hostile_names) if other is not one else k1
            r1 = add_attr(rng, link, ty1, hostile_names)
            r2 = add_attr(rng, link, ty2 if other is not one else ty1, hostile_names)
            if one is other:
                rops.append(Rop(rel, link[0], [r1], 'MC', 'one', one[0], [k1], '1', 'other'))
                rops.append(Rop(rel, link[0], [r2], 'MC', 'other', one[0], [k1], '1', 'one'))
            else:
                rops.append(Rop(rel, link[0], [r1], rng.choice(('MC', '1C', 'M')), '', one[0], [k1], '1', ''))
                rops.append(Rop(rel, link[0], [r2], rng.choice(('MC', '1C')), '', other[0], [k2], '1', ''))
        elif shape == 'subsuper':
            if len(classes) < 3:
                continue
            sup, s1, s2 = rng.sample(classes, 3)
            key = add_attr(rng, sup, 'UNIQUE_ID', hostile_names)
            for sub in (s1, s2):
                ref = add_attr(rng, sub, 'UNIQUE_ID', hostile_names)
                rops.append(Rop(rel, sub[0], [ref], '1C', '', sup[0], [key], '1', ''))
        elif shape == 'chained':
            # c refers to b through an attribute of b that itself refers to a (the usual subtype / key chain);
            # the two associations are declared in either order
            if len(classes) < 3:
                continue
            a, b, c = rng.sample(classes, 3)
            ty = rng.choice(('UNIQUE_ID', 'INTEGER', 'BOOLEAN', 'STRING'))
            akey = add_attr(rng, a, ty, hostile_names)
            bref = add_attr(rng, b, ty, hostile_names)
            cref = add_attr(rng, c, ty, hostile_names)
            first = Rop(rel, b[0], [bref], rng.choice(('1C', 'MC')), '', a[0], [akey], '1', '')
            rel += 1
            second = Rop(rel, c[0], [cref], 'MC', '', b[0], [bref], '1C', '')
            rops.extend([first, second] if rng.random() < 0.5 else [second, first])
        elif shape == 'shared':
            if len(classes) < 3:
                continue
            s, t1, t2 = rng.sample(classes, 3)
            ty = rng.choice(('UNIQUE_ID', 'INTEGER'))
            k1 = add_attr(rng, t1, ty, hostile_names)
            k2 = add_attr(rng, t2, ty, hostile_names)
            ref = add_attr(rng, s, ty, hostile_names)
            rops.append(Rop(rel, s[0], [ref], 'MC', '', t1[0], [k1], '1C', ''))
            rel += 1
            rops.append(Rop(rel, s[0], [ref], 'MC', '', t2[0], [k2], '1C', ''))
    if rng.random() < 0.5:
        # the order in which associations are declared is arbitrary: the formalisations of one association number
        # (association class, subtypes) need not follow one another
        rng.shuffle(rops)
        if any(rops[i].rel == rops[j].rel and any(r.rel != rops[i].rel for r in rops[i + 1:j])
               for i in range(len(rops)) for j in range(i + 2, len(rops))):
            SHAPES['association-number-declared-in-two-separate-runs'] = \
                SHAPES.get('association-number-declared-in-two-separate-runs', 0) + 1
    for c in classes:
        if c[1]:
            for n in range(rng.choice((0, 0, 1, 1, 2, 3))):
                attrs = [a for a, _ in rng.sample(c[1], rng.randint(1, min(3, len(c[1]))))]
                uniques.append((c[0], 'I%d' % (n + 1), attrs))
    return Schema([(c[0], c[1]) for c in classes], rops, uniques)


def chained(schema):
    '''does an association refer to an attribute that is itself referential?'''
    ref = set((r.src, a) for r in schema.rops for a in r.src_keys)
    return any((r.tgt, k) in ref for r in schema.rops for k in r.tgt_keys)


def add_attr(rng, cls, ty, hostile):
    name = pick_name(rng, cls[2], hostile)
    cls[1].insert(rng.randint(0, len(cls[1])), (name, spell_type(rng, ty)))
    return name


# ---------------------------------------------------------------------------
# populations
# ---------------------------------------------------------------------------

class Population(object):
    '''
    rows[kind] = list of dicts attr -> value (every attribute, referential
    ones included; None = unset)
    '''

    def __init__(self, schema):
        self.schema = schema
        self.rows = dict((k, []) for k in schema.kinds())


def key_roles(schema):
    '''(kind, attr) pairs that are identifying in some association'''
    ident = set()
    for r in schema.rops:
        for k in r.tgt_keys:
            ident.add((r.tgt, k))
    return ident


SELF_LINKS = [0]


PERMUTED_KEYS = [0]
HASH_TWINS = [0]
ZERO_KEYS = [0]         # identifying integer / real attributes given the value zero


def resolved_population(rng, schema, max_inst=6, unset=True):
    '''
    Population whose referential values resolve (C01's domain): identifying
    key tuples of a referred class are unique and non-null; a referring
    instance either carries the key of exactly one referred instance (then the
    multiplicity of the referring end is respected) or nulls. Returns the
    population and the planned links {rop index: [(src idx, tgt idx)]}.
    '''
    pop = Population(schema)
    ident = key_roles(schema)
    types = dict(((k, a), ty) for k, attrs in schema.classes for a, ty in attrs)
    referential = set((r.src, a) for r in schema.rops for a in r.src_keys)
    counter = [0]
    zeroed = set()
    for kind, attrs in schema.classes:
        for i in range(rng.randint(0, max_inst)):
            row = {}
            for a, ty in attrs:
                if (kind, a) in referential:
                    row[a] = None
                elif (kind, a) in ident:
                    counter[0] += 1
                    row[a] = unique_key_value(rng, ty, counter[0])
                    if ty.upper() in ('INTEGER', 'REAL') and (kind, a) not in zeroed and rng.random() < 0.2:
                        # integers and reals have no null: zero is a key value like any other (once per attribute)
                        zeroed.add((kind, a))
                        row[a] = 0 if ty.upper() == 'INTEGER' else 0.0
                        ZERO_KEYS[0] += 1
                else:
                    row[a] = None if (unset and rng.random() < 0.08) else random_value(rng, ty)
            pop.rows[kind].append(row)
    # compound keys: now and then two referred rows carry the same values the other way round
    for r in schema.rops:
        same = [(k1, k2) for n, k1 in enumerate(r.tgt_keys) for k2 in r.tgt_keys[n + 1:]
                if types[(r.tgt, k1)].upper() == types[(r.tgt, k2)].upper()
                and (r.tgt, k1) not in referential and (r.tgt, k2) not in referential]
        rows = pop.rows[r.tgt]
        if same and len(rows) >= 2 and rng.random() < 0.4:
            k1, k2 = rng.choice(same)
            i, j = rng.sample(range(len(rows)), 2)
            if rows[i][k1] != rows[i][k2]:
                PERMUTED_KEYS[0] += 1
                rows[j][k1], rows[j][k2] = rows[i][k2], rows[i][k1]
    # ... and now and then two referred rows carry key values that differ but have the same hash value (-1 / -2; values
    # congruent modulo 2**61 - 1): equal hashes are not equal keys
    twins = {'INTEGER': [(-1, -2), (1, 2 ** 61), (0, 2 ** 61 - 1), (12, 11 + 2 ** 61)],
             'REAL': [(-1.0, -2.0), (1.0, 2.0 ** 61), (3.0, 2.0 ** 61 + 2.0 ** 10)],
             'UNIQUE_ID': [(1, 2 ** 61), (7, 6 + 2 ** 61), (2 ** 61 - 1 + 2 ** 100 % (2 ** 61 - 1), 2 ** 100)]}
    for r in schema.rops:
        rows = pop.rows[r.tgt]
        cand = [k for k in r.tgt_keys if types[(r.tgt, k)].upper() in twins and (r.tgt, k) not in referential]
        if cand and len(r.tgt_keys) == 1 and len(rows) >= 2 and rng.random() < 0.3:
            k = rng.choice(cand)
            a, b = rng.choice(twins[types[(r.tgt, k)].upper()])
            if hash(a) != hash(b) or a == b:
                continue
            i, j = rng.sample(range(len(rows)), 2)
            if any(row[k] in (a, b) for row in rows):
                continue
            rows[i][k], rows[j][k] = a, b
            HASH_TWINS[0] += 1
    links = {}
    # referential attributes that are themselves identifying further down need
    # their values first: process rops until a fixed point (bounded)
    order = list(range(len(schema.rops)))
    for _ in range(3):
        for i in order:
            r = schema.rops[i]
            if i in links:
                continue
            # the referred keys must be known (not None) for the chosen target
            used_targets = set()
            plan = []
            for si, srow in enumerate(pop.rows[r.src]):
                if not pop.rows[r.tgt] or rng.random() < 0.3:
                    continue
                ti = rng.randrange(len(pop.rows[r.tgt]))
                if r.src == r.tgt and ti == si:
                    # an instance that refers to itself across a reflexive association is a legitimate link
                    SELF_LINKS[0] += 1
                trow = pop.rows[r.tgt][ti]
                if any(is_null(types[(r.tgt, k)], trow[k]) for k in r.tgt_keys):
                    continue
                if 'M' not in r.src_card and ti in used_targets:
                    continue
                # a shared referential attribute may already hold another value
                if any(srow[a] is not None and srow[a] != trow[k]
                       for a, k in zip(r.src_keys, r.tgt_keys)):
                    continue
                # the value we are about to write must not accidentally match
                # another association's target (shared attribute): checked by
                # the caller through the join
                used_targets.add(ti)
                for a, k in zip(r.src_keys, r.tgt_keys):
                    srow[a] = trow[k]
                plan.append((si, ti))
            links[i] = plan
    return pop, links


def unique_key_value(rng, ty, n):
    ty = ty.upper()
    if ty == 'BOOLEAN':
        return bool(n % 2)           # cannot be unique beyond two rows; the join decides
    if ty == 'INTEGER':
        return rng.choice((n, -n, n + 2 ** 64, n * 1000003))
    if ty == 'REAL':
        return n / 8.0
    if ty == 'STRING':
        return rng.choice(("k%d", "it's %d", "-- %d", "%d\nx", u"\xe5%d", "'%d'")) % n
    return rng.choice((n, n + 2 ** 100, (n << 64) | 5))


def hostile_population(rng, schema, max_inst=6):
    '''
    Population for C03/C11: referential and identifying values drawn from
    small per-type pools so that matches, duplicates, dangling and null keys
    all occur.
    '''
    pop = Population(schema)
    pools = {'BOOLEAN': [True, False], 'INTEGER': [0, 1, 2, -3, 2 ** 65],
             'REAL': [0.0, 0.5, 1.5, -2.25], 'STRING': ['', 'a', "b'c", 'a\nb'],
             'UNIQUE_ID': [0, 1, 2, 3, 2 ** 100]}
    if rng.random() < 0.4:
        # values that differ but have the same hash value
        pools['INTEGER'] += [-1, -2]
        pools['REAL'] += [-1.0, -2.0]
        pools['UNIQUE_ID'] += [2 ** 61]
        HASH_TWINS[0] += 1
    ident = key_roles(schema)
    referential = set((r.src, a) for r in schema.rops for a in r.src_keys)
    for kind, attrs in schema.classes:
        for i in range(rng.randint(0, max_inst)):
            row = {}
            for a, ty in attrs:
                if (kind, a) in referential or (kind, a) in ident:
                    row[a] = None if rng.random() < 0.1 else rng.choice(pools[ty.upper()])
                else:
                    row[a] = random_value(rng, ty)
            pop.rows[kind].append(row)
    return pop


def join(schema, pop):
    '''
    The independent definition of the links: {rop index: set((src idx, tgt idx))}.
    Linked iff every referential value is non-null and equals the referred
    instance's corresponding identifying value.
    '''
    types = dict(((k, a), ty) for k, attrs in schema.classes for a, ty in attrs)
    res = {}
    for i, r in enumerate(schema.rops):
        pairs = set()
        for si, s in enumerate(pop.rows[r.src]):
            if any(is_null(types[(r.src, a)], s[a]) for a in r.src_keys):
                continue
            for ti, t in enumerate(pop.rows[r.tgt]):
                if any(is_null(types[(r.tgt, k)], t[k]) for k in r.tgt_keys):
                    continue
                if all(same_value(s[a], t[k]) for a, k in zip(r.src_keys, r.tgt_keys)):
                    pairs.add((si, ti))
        res[i] = pairs
    return res


def normalised(schema, pop):
    '''the population as the format carries it: unset -> null value of the type'''
    out = Population(schema)
    for kind, attrs in schema.classes:
        for row in pop.rows[kind]:
            out.rows[kind].append(dict((a, null_of(ty) if row[a] is None else row[a]) for a, ty in attrs))
    return out


def same_value(a, b):
    if isinstance(a, bool) != isinstance(b, bool):
        return False
    return a == b


# ---------------------------------------------------------------------------
# independent serializer
# ---------------------------------------------------------------------------

def sql_value(ty, v, rng=None):
    ty = ty.upper()
    if v is None:
        v = null_of(ty)
    if ty == 'BOOLEAN':
        if rng is not None and rng.random() < 0.5:
            return rng.choice(('TRUE', 'true', 'True')) if v else rng.choice(('FALSE', 'false', 'False'))
        return '1' if v else '0'
    if ty == 'INTEGER':
        return str(int(v))
    if ty == 'REAL':
        return '%.6f' % v
    if ty == 'STRING':
        return "'" + v.replace("'", "''") + "'"
    if ty == 'UNIQUE_ID':
        return '"%s"' % uuid.UUID(int=v)
    raise AssertionError(ty)


SHORT_ROWS = [0]


def insert_statements(schema, pop, rng=None, named=False, kinds=None, omit_unset=False, short_rows=False):
    '''
    -> list of (kind, index, statement text). With *omit_unset* an unset value
    (None) is expressed the only way the dialect can: a named insert that
    leaves the column out; otherwise it is written as the null value of its type.
    '''
    out = []
    referential = set((r.src, a) for r in schema.rops for a in r.src_keys)
    for kind, attrs in schema.classes:
        if kinds is not None and kind not in kinds:
            continue
        for n, row in enumerate(pop.rows[kind]):
            use_named = named if rng is None else (named and rng.random() < 0.7)
            has_unset = omit_unset and any(row[a] is None for a, _ in attrs)
            nset = len(attrs)
            while nset and row[attrs[nset - 1][0]] is None:
                nset -= 1
            if (short_rows and has_unset and rng is not None and nset and rng.random() < 0.5
                    and all(row[a] is not None for a, _ in attrs[:nset])
                    and all((kind, a) in referential for a, _ in attrs[nset:])):
                # the unset values are the last ones and all referential: a positional insert that stops early
                # says the same (other attributes left out of a positional insert get the default of their
                # type - a generated id for one - rather than no value)
                SHORT_ROWS[0] += 1
                text = 'INSERT INTO %s VALUES (%s);' % (
                    kind, ', '.join(sql_value(ty, row[a], rng) for a, ty in attrs[:nset]))
            elif (use_named or has_unset) and attrs:
                cols = [(a, ty) for a, ty in attrs if not (omit_unset and row[a] is None)]
                if rng is not None:
                    rng.shuffle(cols)
                text = 'INSERT INTO %s (%s) VALUES (%s);' % (
                    kind, ', '.join(a for a, _ in cols),
                    ', '.join(sql_value(ty, row[a], rng) for a, ty in cols))
            else:
                text = 'INSERT INTO %s VALUES (%s);' % (
                    kind, ', '.join(sql_value(ty, row[a], rng) for a, ty in attrs))
            out.append((kind, n, text))
    return out


def schema_statements(schema):
    return [l for l in schema.sql().splitlines() if l.strip()]


# ---------------------------------------------------------------------------
# structural snapshot through the public read API
# ---------------------------------------------------------------------------

def norm_value(ty, v):
    ty = ty.upper()
    if v is None:
        v = null_of(ty)
    if ty == 'REAL':
        return float('%f' % v)
    if ty == 'BOOLEAN':
        return bool(v)
    return v


def snap(m, ordered=True):
    '''
    classes, associations, identifiers, instances (ordered value tuples per
    class) and the link set, read through public attributes / navigation only.
    '''
    import xtuml
    out = {}
    classes = {}
    for K, mc in m.metaclasses.items():
        classes[K] = (mc.kind, tuple((n, t.upper()) for n, t in mc.attributes))
    out['classes'] = classes
    assocs = []
    for ass in m.associations:
        sl, tl = ass.source_link, ass.target_link
        assocs.append((ass.rel_id, sl.to_metaclass.kind, tuple(ass.source_keys), sl.cardinality,
                       tl.phrase, tl.to_metaclass.kind, tuple(ass.target_keys), tl.cardinality,
                       sl.phrase))
    out['associations'] = sorted(assocs)
    out['identifiers'] = dict((K, dict((n, tuple(a)) for n, a in mc.indices.items()))
                              for K, mc in m.metaclasses.items())
    insts = {}
    pos = {}
    for K, mc in m.metaclasses.items():
        rows = []
        for n, inst in enumerate(m.select_many(mc.kind)):
            pos[id(inst)] = (K, n)
            rows.append(tuple(norm_value(ty, getattr(inst, a)) for a, ty in mc.attributes))
        insts[K] = rows if ordered else sorted(rows, key=repr)
    out['instances'] = insts
    links = set()
    for ass in m.associations:
        sl, tl = ass.source_link, ass.target_link
        src, tgt = sl.to_metaclass, tl.to_metaclass
        for inst in m.select_many(src.kind):
            for other in xtuml.navigate_many(inst).nav(tgt.kind, ass.rel_id, tl.phrase)():
                links.add((ass.rel_id, tl.phrase, 'fwd', pos[id(inst)], pos.get(id(other), 'dead')))
        for inst in m.select_many(tgt.kind):
            for other in xtuml.navigate_many(inst).nav(src.kind, ass.rel_id, sl.phrase)():
                links.add((ass.rel_id, sl.phrase, 'back', pos.get(id(other), 'dead'), pos[id(inst)]))
    out['links'] = links
    return out


def snap_diff(a, b):
    '''-> list of (part, text)'''
    diffs = []
    for part in ('classes', 'associations', 'identifiers', 'instances', 'links'):
        if a[part] != b[part]:
            if isinstance(a[part], dict):
                for k in sorted(set(a[part]) | set(b[part])):
                    if a[part].get(k) != b[part].get(k):
                        diffs.append((part, '%s: %r  !=  %r' % (k, a[part].get(k), b[part].get(k))))
                        break
            elif isinstance(a[part], set):
                diffs.append((part, 'only before: %r; only after: %r'
                              % (sorted(a[part] - b[part], key=repr)[:3], sorted(b[part] - a[part], key=repr)[:3])))
            else:
                diffs.append((part, '%r != %r' % (a[part], b[part])))
    return diffs
