'''
Token-level mutation of texts in the loader's SQL dialect, random token
sequences and arbitrary strings (workloads of C12).
'''
import re

TOKEN = re.compile(r'''
    (?P<comment>--[^\n]*\n?)
  | (?P<string>'(?:''|[^'])*')
  | (?P<guid>"[^"\n]*")
  | (?P<fraction>\d+\.\d+)
  | (?P<number>\d+)
  | (?P<ident>[A-Za-z_][A-Za-z_0-9]*)
  | (?P<punct>[(),;\-])
  | (?P<space>\s+)
  | (?P<other>.)
''', re.X | re.S)

VOCAB = ['CREATE', 'TABLE', 'INSERT', 'INTO', 'VALUES', 'ROP', 'REF_ID', 'FROM', 'TO', 'PHRASE',
         'UNIQUE', 'INDEX', 'ON', 'TRUE', 'FALSE', '(', ')', ',', ';', '-', '1', '1C', 'M', 'MC',
         'R1', 'R22', 'A', 'B', 'Id', 'A_Id', 'INTEGER', 'STRING', 'BOOLEAN', 'REAL', 'UNIQUE_ID',
         'FOO', '0', '7', '12.5', "'s'", "''", "'it''s'", '"00000000-0000-0000-0000-000000000001"',
         '"x"', '""', 'I1', '--c\n', '\n', 'true', 'false', '99999999999999999999', '0.0', 'Mc', 'm']


COUNTS = {}


def tokenize(text):
    return [(m.lastgroup, m.group()) for m in TOKEN.finditer(text)]


def untokenize(tokens, rng=None):
    out = []
    for kind, t in tokens:
        out.append(t)
    return ''.join(out)


FLIP = {
    'string': ['1', '1.5', '"00000000-0000-0000-0000-000000000002"', 'TRUE', 'x', "''", '-3'],
    'guid': ["'g'", '5', '2.25', 'FALSE', '"not-a-guid"', '""', '"00000000"', '"zzzzzzzz-zzzz-zzzz-zzzz-zzzzzzzzzzzz"'],
    'number': ["'n'", '1.0', '"00000000-0000-0000-0000-000000000003"', 'TRUE', '1C', '99999999999999999999999',
               '9' * 5000, 'M'],
    'fraction': ["'f'", '2', '"00000000-0000-0000-0000-000000000004"', 'false', '1.5.5'],
    'ident': ['1', "'i'", 'R7', 'TRUE', 'M', 'MC', 'CREATE', 'x y'],
}


def mutate(rng, text, nedits=1):
    toks = [t for t in tokenize(text)]
    sig = [i for i, (k, _) in enumerate(toks) if k not in ('space',)]
    for _ in range(nedits):
        if not sig:
            break
        op = rng.choice(('delete', 'duplicate', 'swap', 'flip', 'flip', 'truncate', 'case', 'insert', 'alias'))
        i = rng.choice(sig)
        if op == 'delete':
            toks[i] = ('space', ' ')
        elif op == 'duplicate':
            toks.insert(i, toks[i])
            toks.insert(i + 1, ('space', ' '))
        elif op == 'swap':
            j = rng.choice(sig)
            toks[i], toks[j] = toks[j], toks[i]
        elif op == 'flip':
            k = toks[i][0]
            if k in FLIP:
                toks[i] = ('other', rng.choice(FLIP[k]))
            else:
                toks[i] = ('other', rng.choice(VOCAB))
        elif op == 'truncate':
            cut = rng.randrange(len(text) + 1)
            return untokenize(toks)[:cut]
        elif op == 'case':
            t = toks[i][1]
            toks[i] = (toks[i][0], ''.join(c.upper() if rng.random() < 0.5 else c.lower() for c in t))
        elif op == 'insert':
            toks.insert(i, ('other', rng.choice(VOCAB) + ' '))
        elif op == 'alias':
            # a name becomes another name of the text (same or other letter case): the same attribute / class / column
            # twice, a reference to another class or attribute
            idents = [j for j in sig if toks[j][0] == 'ident']
            if len(idents) >= 2:
                i = rng.choice(idents)
                near = [j for j in idents if j != i and abs(j - i) <= 12] or [j for j in idents if j != i]
                t = toks[rng.choice(near)][1]
                k = rng.random()
                t = t if k < 0.3 else t.upper() if k < 0.5 else t.lower() if k < 0.7 else t.swapcase()
                toks[i] = ('ident', t)
                COUNTS['Mutant.alias-edit'] = COUNTS.get('Mutant.alias-edit', 0) + 1
        sig = [i for i, (k, _) in enumerate(toks) if k not in ('space',)]
    return untokenize(toks)


def random_tokens(rng, n):
    return ' '.join(rng.choice(VOCAB) for _ in range(n))


ALPHABETS = [
    lambda rng: chr(rng.randrange(32, 127)),
    lambda rng: rng.choice("'\"-;(),\n\t \x00\r\\"),
    lambda rng: chr(rng.randrange(0, 0x300)),
    lambda rng: chr(rng.choice((rng.randrange(0x300, 0xD800), rng.randrange(0xE000, 0x11000)))),
    lambda rng: rng.choice('0123456789.'),
    lambda rng: rng.choice(VOCAB) + ' ',
]


def random_string(rng, maxlen=200):
    n = rng.randint(0, maxlen)
    weights = [rng.random() for _ in ALPHABETS]
    out = []
    for _ in range(n):
        a = rng.choices(ALPHABETS, weights)[0]
        out.append(a(rng))
    return ''.join(out)
