'''
An independent OAL program model: node constructors mirroring the syntax
trees the language defines, a token emitter with layout / keyword-case /
optional-word / parenthesis policies that records the exact source position of
every node while writing it, and a strict structural comparer for the trees
returned by bridgepoint.oal.parse.

Nothing here imports bridgepoint; the expected tree is stated by class name
and field values.
'''

# precedence levels of the documented table (higher binds tighter)
LEVEL = {'or': 1, 'and': 2,
         '<': 3, '<=': 3, '==': 3, '!=': 3, '>=': 3, '>': 3,
         '+': 4, '-': 4, '|': 4,
         '*': 5, '/': 5, '&': 5, '^': 5,
         '%': 6}
UNARY_LEVEL = 7
ATOM_LEVEL = 8
BINARY_OPS = list(LEVEL)
UNARY_OPS = ['not', 'empty', 'not_empty', 'cardinality', '+', '-']
WORD_OPS = ('or', 'and', 'not', 'empty', 'not_empty', 'cardinality')


class N(object):
    '''
    cls      expected class name of the library node
    fields   expected scalar attributes {name: value}
    kw       names of fields holding keyword text (compared case-insensitively)
    kids     expected node.children (N, str or None), in order
    emit     function(emitter) writing the node's tokens
    pos      (start_line, start_col, end_line, end_col, start_off, end_off) once rendered
    level    binding level for parenthesisation (expressions)
    '''
    __slots__ = ('cls', 'fields', 'kw', 'kids', 'emit', 'pos', 'level', 'checked', 'alt_cls', 'sem')

    def __init__(self, cls, fields=None, kids=None, emit=None, kw=(), level=ATOM_LEVEL, checked=True):
        self.cls = cls
        self.fields = fields or {}
        self.kw = kw
        self.kids = kids or []
        self.emit = emit
        self.pos = None
        self.level = level
        self.checked = checked      # position checked (statement / expression nodes)
        self.alt_cls = None
        self.sem = None

    def walk(self):
        yield self
        for k in self.kids:
            if isinstance(k, N):
                for x in k.walk():
                    yield x

    def size(self):
        return sum(1 for _ in self.walk())


# ---------------------------------------------------------------------------
# emitter
# ---------------------------------------------------------------------------

class Emitter(object):
    '''
    layout: 'canonical' | 'random'
    case:   'lower' | 'upper' | 'capital' | 'random'   (keywords only)
    '''
    SAFE_GLUE = set('();,[]')

    def __init__(self, rng=None, layout='canonical', case='lower', optional=None, extra_parens=0.0,
                 newline_in_end=True, comments=True, case_rng=None):
        self.rng = rng
        # the letter case of keywords may be drawn from a generator of its own, so that two renderings of one tree
        # with the same layout generator state differ in nothing but the letter case of keywords
        self.case_rng = case_rng or rng
        self.layout = layout
        self.case = case
        self.optional = optional           # None: random per site, True/False: always/never
        self.extra_parens = extra_parens
        self.newline_in_end = newline_in_end
        self.comments = comments
        self.parts = []
        self.line = 1
        self.col = 1
        self.off = 0
        self.prev = None
        self.stack = []
        self.glue_next = False
        self.ntokens = 0
        self.empty_statements = 0

    # -- low level -----------------------------------------------------------
    def _write(self, s):
        self.parts.append(s)
        for ch in s:
            self.off += 1
            if ch == '\n':
                self.line += 1
                self.col = 1
            else:
                self.col += 1

    def _gap(self, nxt):
        '''whitespace / comments between the previous token and *nxt*'''
        if self.prev is None:
            if self.layout == 'random' and self.rng.random() < 0.2:
                self._write(self.rng.choice((' ', '\n', '\t', '  \n ', '/* head */ ', '// first line\n')))
            return
        if self.glue_next:
            self.glue_next = False
            return
        if self.layout == 'canonical':
            if self.prev == ';':
                self._write('\n')
            elif nxt in (';', ',', ')') or self.prev == '(' or (nxt == '(' and self.prev_kind == 'id'):
                pass
            else:
                self._write(' ')
            return
        r = self.rng
        can_glue = (self.prev in self.SAFE_GLUE or nxt in self.SAFE_GLUE)
        k = r.random()
        if can_glue and k < 0.45:
            return
        n = r.choice((1, 1, 1, 2, 3))
        ws = ''
        for _ in range(n):
            c = r.random()
            if c < 0.62:
                ws += ' '
            elif c < 0.72:
                ws += '\t'
            elif c < 0.90:
                ws += '\n'
            elif c < 0.92:
                ws += '\r\n'
            elif self.comments and c < 0.97:
                if not ws and (self.prev == '/' or (self.prev not in self.SAFE_GLUE and r.random() < 0.5)):
                    ws += ' '        # "/" + "/* */" would read as a line comment; otherwise a comment may
                                     # follow a word, a number or a literal without any blank
                ws += self.comment()
                if not can_glue or r.random() < 0.5:
                    ws += ' '
            elif self.comments:
                if not ws and (self.prev == '/' or (self.prev not in self.SAFE_GLUE and r.random() < 0.5)):
                    ws += ' '
                ws += r.choice(('// line comment\n', '//\n', '// end if; select\n', '// /* \n',
                                # (a line comment ends at the line feed, not at what other conventions end a line with)
                                '// a\x0cb\n', '// x\u2028 break;\n', '// \x85 return;\n', '// c\x0b d = 1;\n', '// \x1c\x1d\x1e ;\n',
                                '// \u2029 y = 1;\n'))
            else:
                ws += ' '
        if not ws.strip(' \t\r\n') and not ws:
            ws = ' '
        self._write(ws)

    def comment(self):
        '''a block comment: fixed shapes and random bodies over the characters the lexer rule loops over'''
        r = self.rng
        if r.random() < 0.5:
            return r.choice(('/* c */', '/* multi\nline * comment */', '/**/', '/* a ; b */', '/*** x ***/',
                             '/* // */', '/* "s" */', '/** doc **/', '/* x **/', '/****/', '/***/',
                             '/****** box ******/', '/* a **** b */', '/* / * / */', '/*/ x */', '/* *\n * y\n **/'))
        # (besides the line feed a comment may hold the characters other conventions end a line with - form feed,
        # vertical tab, a lone carriage return, the separators 1c-1e, NEL, U+2028 / U+2029: none of them ends a line
        # of the text, whose lines are counted in line feeds)
        body = ''.join(r.choice(('*', '*', '/', ' ', 'a', '\n', ';', '"', "'", 'end if') +
                                (('\x0c', '\x0b', '\r', '\x1c', '\x1e', '\x85', '\u2028', '\u2029') if r.random() < 0.15 else ()))
                       for _ in range(r.randint(0, 12)))
        if any(ch in body for ch in '\x0c\x0b\r\x1c\x1e\x85\u2028\u2029'):
            STATS['comment-with-other-line-boundary-character'] = STATS.get('comment-with-other-line-boundary-character', 0) + 1
        while '*/' in body:
            body = body.replace('*/', '* /')
        if body.startswith('/') and False:
            body = ' ' + body
        return '/*' + body + '*/'

    def _tok(self, text, kind):
        self._gap(text)
        for n in self.stack:
            if n.pos is None:
                n.pos = [self.line, self.col, None, None, self.off, None]
        self._write(text)
        for n in self.stack:
            n.pos[2], n.pos[3], n.pos[5] = self.line, self.col - 1, self.off
        self.prev = text
        self.prev_kind = kind
        self.ntokens += 1

    # -- API used by node emitters ------------------------------------------
    def kw(self, word):
        '''a keyword: subject to the case policy'''
        self._tok(self.cased(word), 'kw')

    def cased(self, word):
        c = self.case
        if c == 'lower':
            return word.lower()
        if c == 'upper':
            return word.upper()
        if c == 'capital':
            return word.capitalize()
        return ''.join(ch.upper() if self.case_rng.random() < 0.5 else ch.lower() for ch in word)

    def end_kw(self, word):
        '''"end if" / "end for" / "end while": one token with inner white space'''
        inner = ' '
        if self.layout == 'random':
            inner = self.rng.choice((' ', '  ', '\t', ' \t ') + (('\n', ' \n  ') if self.newline_in_end else ()))
        self._tok(self.cased('end') + inner + self.cased(word), 'kw')

    def id(self, text):
        self._tok(text, 'id')

    def lit(self, text):
        self._tok(text, 'lit')

    def p(self, text):
        self._tok(text, 'punct')

    def glued(self):
        '''the next token follows without white space (namespace::)'''
        self.glue_next = True

    def opt(self):
        '''whether to write an optional word here'''
        if self.optional is None:
            return self.rng.random() < 0.5 if self.rng else True
        return self.optional

    def node(self, n):
        if n is None:
            return
        self.stack.append(n)
        n.pos = None
        n.emit(self, n)
        self.stack.pop()
        if n.pos is not None:
            n.pos = tuple(n.pos)

    def operand(self, n, parens):
        '''emit an expression, parenthesised when required (or, rarely, redundantly)'''
        extra = self.rng is not None and self.extra_parens and self.rng.random() < self.extra_parens
        if parens or extra:
            # the parentheses belong to the operand's span
            self.stack.append(n)
            n.pos = None
            self.p('(')
            inner_extra = self.rng is not None and extra and self.rng.random() < 0.2
            if inner_extra:
                self.p('(')
            n.emit(self, n)
            if inner_extra:
                self.p(')')
            self.p(')')
            self.stack.pop()
            n.pos = tuple(n.pos)
        else:
            self.node(n)

    def text(self):
        return ''.join(self.parts)


STATS = dict(empty_statements=0)


def render(root, rng=None, **kw):
    em = Emitter(rng, **kw)
    em.node(root)
    if em.layout == 'random' and em.comments and rng.random() < 0.2:
        # what follows the last statement: blanks, a block comment, or a line comment that the end of the
        # text (not a line break) terminates
        em._write(rng.choice((' ', '\n', ' // the end', '// x', ' /* bye */', '\n//', '\t\n\n')))
        STATS['trailing'] = STATS.get('trailing', 0) + 1
    STATS['empty_statements'] += em.empty_statements
    return em.text()


# ---------------------------------------------------------------------------
# expression constructors
# ---------------------------------------------------------------------------

def integer(v):
    return N('IntegerNode', dict(value=str(v)), emit=lambda e, n: e.lit(n.fields['value']))


def real(text):
    return N('RealNode', dict(value=text), emit=lambda e, n: e.lit(n.fields['value']))


def string(s):
    return N('StringNode', dict(value='"%s"' % s), emit=lambda e, n: e.lit(n.fields['value']))


def boolean(v):
    word = 'true' if v else 'false'

    def emit(e, n):
        t = e.cased(word)
        n.fields['value'] = t
        e._tok(t, 'kw')
    return N('BooleanNode', dict(value=word), kw=('value',), emit=emit)


def var(name):
    return N('VariableAccessNode', dict(variable_name=name), emit=lambda e, n: e.id(n.fields['variable_name']))


def self_():
    return N('SelfAccessNode', dict(variable_name='self'), emit=lambda e, n: e.kw('self'))


def selected():
    return N('SelectedAccessNode', dict(variable_name='selected'), emit=lambda e, n: e.kw('selected'))


def param(name, word='param'):
    def emit(e, n):
        e.kw(word)
        e.p('.')
        e.id(name)
    return N('ParamAccessNode', dict(variable_name=name), emit=emit)


def field(handle, name):
    def emit(e, n):
        e.node(handle)
        e.p('.')
        e.id(name)
    return N('FieldAccessNode', dict(name=name), [handle], emit=emit)


def index(handle, expr):
    def emit(e, n):
        e.node(handle)
        e.p('[')
        e.node(expr)
        e.p(']')
    return N('IndexAccessNode', {}, [handle, expr], emit=emit)


def enum(namespace, name):
    def emit(e, n):
        e.id(namespace)
        e.glued()
        e.p('::')
        e.id(name)
    return N('EnumOrNamedConstantNode', dict(namespace=namespace, name=name), emit=emit)


def unary(op, operand):
    def emit(e, n):
        if op in WORD_OPS:
            t = e.cased(op)
            n.fields['operator'] = t
            e._tok(t, 'kw')
        else:
            e.p(op)
        e.operand(operand, operand.level < UNARY_LEVEL)
    return N('UnaryOperationNode', dict(operator=op), [operand], kw=('operator',), emit=emit, level=UNARY_LEVEL)


def binary(op, left, right):
    lvl = LEVEL[op]
    nonassoc = lvl == 3

    def emit(e, n):
        e.operand(left, left.level < lvl or (nonassoc and left.level == lvl))
        if op in WORD_OPS:
            t = e.cased(op)
            n.fields['operator'] = t
            e._tok(t, 'kw')
        else:
            e.p(op)
        e.operand(right, right.level <= lvl)
    return N('BinaryOperationNode', dict(operator=op), [left, right], kw=('operator',), emit=emit, level=lvl)


def params(items):
    '''items: [(name, expr)]'''
    plist = []
    for name, expr in items:
        def emit(e, n, name=name, expr=expr):
            e.id(name)
            e.p(':')
            e.node(expr)
        plist.append(N('ParameterNode', dict(name=name), [expr], emit=emit, checked=False))

    def emit_list(e, n):
        for i, pn in enumerate(plist):
            if i:
                e.p(',')
            e.node(pn)
    return N('ParameterListNode', {}, plist, emit=emit_list, checked=False)


def fcall(name, items):
    pl = params(items)

    def emit(e, n):
        e.p('::')
        e.id(name)
        e.p('(')
        e.node(pl)
        e.p(')')
    return N('FunctionInvocationNode', dict(action_name=name), [pl], emit=emit)


def implicit_call(namespace, name, items, cls='ImplicitInvocationNode'):
    pl = params(items)

    def emit(e, n):
        e.id(namespace)
        e.glued()
        e.p('::')
        e.id(name)
        e.p('(')
        e.node(pl)
        e.p(')')
    return N(cls, dict(namespace=namespace, action_name=name), [pl], emit=emit)


def icall(handle, name, items):
    pl = params(items)

    def emit(e, n):
        e.node(handle)
        e.p('.')
        e.id(name)
        e.p('(')
        e.node(pl)
        e.p(')')
    return N('InstanceInvocationNode', dict(action_name=name), [handle, pl], emit=emit)


# ---------------------------------------------------------------------------
# statement constructors
# ---------------------------------------------------------------------------

def stmt_list(stmts):
    def emit(e, n):
        for s in stmts:
            e.node(s)
            e.p(';')
            if e.layout == 'random' and e.rng.random() < 0.04:
                e.p(';')          # an empty statement: leaves no node behind
                e.empty_statements += 1
    return N('StatementListNode', {}, list(stmts), emit=emit, checked=False)


def block(stmts):
    sl = stmt_list(stmts)
    return N('BlockNode', {}, [sl], emit=lambda e, n: e.node(sl), checked=False)


def body(stmts):
    b = block(stmts)
    return N('BodyNode', {}, [b], emit=lambda e, n: e.node(b), checked=False)


def assign(target, expr, prefix=None):
    '''prefix: None (optional word assign), or 'bridge' / 'transform' / 'send' '''
    def emit(e, n):
        if prefix:
            e.kw(prefix)
        elif e.opt():
            e.kw('assign')
        e.node(target)
        e.p('=')
        e.node(expr)
    return N('AssignmentNode', {}, [target, expr], emit=emit)


def invoke(inv, prefix=None):
    def emit(e, n):
        if prefix:
            e.kw(prefix)
        e.node(inv)
    return N('InvocationStatementNode', {}, [inv], emit=emit)


def simple(cls, *words):
    def emit(e, n):
        for w in words:
            e.kw(w)
    return N(cls, {}, [], emit=emit)


def break_():
    return simple('BreakNode', 'break')


def continue_():
    return simple('ContinueNode', 'continue')


def control_stop():
    return simple('ControlNode', 'control', 'stop')


def return_(expr=None):
    def emit(e, n):
        e.kw('return')
        if expr is not None:
            e.node(expr)
    return N('ReturnNode', {}, [expr], emit=emit)


def create(varname, key_letter):
    def emit(e, n):
        e.kw('create')
        e.kw('object')
        e.kw('instance')
        if varname is not None:
            e.id(varname)
        e.kw('of')
        e.id(key_letter)
    if varname is None:
        return N('CreateObjectNoVariableNode', dict(key_letter=key_letter), [], emit=emit)
    return N('CreateObjectNode', dict(variable_name=varname, key_letter=key_letter), [], emit=emit)


def delete(varname):
    def emit(e, n):
        e.kw('delete')
        e.kw('object')
        e.kw('instance')
        _inst(e, varname, n, 'variable_name')
        n.kids[0] = n.fields['variable_name']
    return N('DeleteNode', dict(variable_name=varname), [varname], emit=emit)


def _phrase(e, phrase, ticked):
    if ticked:
        e.lit("'%s'" % phrase)
    else:
        e.id(phrase)


def _inst(e, name, n=None, fieldname=None):
    if name == 'self':
        t = e.cased('self')
        e._tok(t, 'kw')
        if n is not None:
            n.fields[fieldname] = t      # the tree keeps the spelling of the source
    else:
        e.id(name)


def relate(a, b, rel, phrase=None, using=None, un=False, ticked=True):
    def emit(e, n):
        e.kw('unrelate' if un else 'relate')
        _inst(e, a, n, 'from_variable_name')
        e.kw('from' if un else 'to')
        _inst(e, b, n, 'to_variable_name')
        e.kw('across')
        e.id(rel)
        if phrase is not None:
            e.p('.')
            _phrase(e, phrase, ticked)
        if using is not None:
            e.kw('using')
            _inst(e, using, n, 'using_variable_name')
    f = dict(from_variable_name=a, to_variable_name=b, rel_id=rel,
             phrase='' if phrase is None else "'%s'" % phrase)
    cls = ('Unrelate' if un else 'Relate') + ('UsingNode' if using is not None else 'Node')
    if using is not None:
        f['using_variable_name'] = using
    return N(cls, f, [], emit=emit)


def select_from(card, varname, key_letter, where=None):
    def emit(e, n):
        e.kw('select')
        t = e.cased(card)
        n.fields['cardinality'] = t
        e._tok(t, 'kw')
        e.id(varname)
        e.kw('from')
        if e.opt():
            e.kw('instances')
            e.kw('of')
        e.id(key_letter)
        if where is not None:
            e.kw('where')
            e.node(where)
    f = dict(cardinality=card, variable_name=varname, key_letter=key_letter)
    if where is None:
        return N('SelectFromNode', f, [], kw=('cardinality',), emit=emit)
    return N('SelectFromWhereNode', f, [where], kw=('cardinality',), emit=emit)


def nav_step(key_letter, rel, phrase=None, ticked=True):
    def emit(e, n):
        e.p('->')
        e.id(key_letter)
        e.p('[')
        e.id(rel)
        if phrase is not None:
            e.p('.')
            _phrase(e, phrase, ticked)
        e.p(']')
    return N('NavigationStepNode', dict(key_letter=key_letter, rel_id=rel,
                                        phrase='' if phrase is None else "'%s'" % phrase),
             [], emit=emit, checked=False)


def select_related(card, varname, handle, steps, where=None):
    chain = N('NavigationListNode', {}, list(steps), checked=False,
              emit=lambda e, n: [e.node(s) for s in steps] and None)

    def emit(e, n):
        e.kw('select')
        t = e.cased(card)
        n.fields['cardinality'] = t
        e._tok(t, 'kw')
        e.id(varname)
        e.kw('related')
        e.kw('by')
        e.node(handle)
        e.node(chain)
        if where is not None:
            e.kw('where')
            e.node(where)
    f = dict(cardinality=card, variable_name=varname)
    if where is None:
        return N('SelectRelatedNode', f, [handle, chain], kw=('cardinality',), emit=emit)
    return N('SelectRelatedWhereNode', f, [handle, chain, where], kw=('cardinality',), emit=emit)


def if_(cond, then, elifs=(), else_=None):
    '''then / else_: list of statements; elifs: [(cond, stmts)]'''
    tb = block(then)
    enodes = []
    for c, stmts in elifs:
        b = block(stmts)

        def emit_elif(e, n, c=c, b=b):
            e.node(c)
            if e.opt():
                e.kw('then')
            e.node(b)
        enodes.append(N('ElIfNode', {}, [c, b], emit=emit_elif, checked=False))

    def emit_elifs(e, n):
        for en in enodes:
            e.kw('elif')
            e.node(en)
    el = N('ElIfListNode', {}, enodes, emit=emit_elifs, checked=False)
    eb = None
    if else_ is not None:
        ebk = block(else_)

        def emit_else(e, n):
            e.kw('else')
            e.node(ebk)
        eb = N('ElseNode', {}, [ebk], emit=emit_else, checked=False)

    def emit(e, n):
        e.kw('if')
        e.node(cond)
        if e.opt():
            e.kw('then')
        e.node(tb)
        if enodes:
            e.node(el)
        if eb is not None:
            e.node(eb)
        e.end_kw('if')
    return N('IfNode', {}, [cond, tb, el, eb], emit=emit)


def while_(cond, stmts):
    b = block(stmts)

    def emit(e, n):
        e.kw('while')
        e.node(cond)
        if e.opt():
            e.kw('loop')
        e.node(b)
        e.end_kw('while')
    return N('WhileNode', {}, [cond, b], emit=emit)


def for_each(varname, setname, stmts):
    b = block(stmts)

    def emit(e, n):
        e.kw('for')
        e.kw('each')
        e.id(varname)
        e.kw('in')
        e.id(setname)
        if e.opt():
            e.kw('loop')
        e.node(b)
        e.end_kw('for')
    return N('ForEachNode', dict(instance_variable_name=varname, set_variable_name=setname), [b], emit=emit)


# -- events -------------------------------------------------------------------

def event_spec(identifier, meaning=None, data=None, polymorphic=False, ticked=True):
    '''data: None (no parentheses) or [(name, expr)]'''
    items = []
    for name, expr in (data or []):
        def emit_item(e, n, name=name, expr=expr):
            e.id(name)
            e.p(':')
            e.node(expr)
        items.append(N('EventDataItemNode', dict(name=name), [expr], emit=emit_item, checked=False))

    def emit_list(e, n):
        for i, it in enumerate(items):
            if i:
                e.p(',')
            e.node(it)
    dl = N('EventDataListNode', {}, items, emit=emit_list, checked=False)

    def emit(e, n):
        e.id(identifier)
        if polymorphic:
            e.p('*')
        if meaning is not None:
            e.p(':')
            _phrase(e, meaning, ticked)
        if data is not None:
            e.p('(')
            if items:
                e.node(dl)
            e.p(')')
    return N('EventSpecNode', dict(identifier=identifier,
                                   meaning=None if meaning is None else "'%s'" % meaning),
             [dl], emit=emit, checked=False)


def generate_to(spec, target, kind):
    '''kind: 'class' | 'assigner' | 'creator' (target = key letters) | 'instance' (target = expr node)'''
    def emit(e, n):
        e.kw('generate')
        e.node(spec)
        e.kw('to')
        if kind == 'instance':
            e.node(target)
        else:
            e.id(target)
            e.kw(kind)
    if kind == 'instance':
        return N('GenerateInstanceEventNode', {}, [spec, target], emit=emit)
    cls = 'GenerateCreatorEventNode' if kind == 'creator' else 'GenerateClassEventNode'
    return N(cls, dict(key_letter=target), [spec], emit=emit)


def create_event(varname, spec, target, kind):
    def emit(e, n):
        e.kw('create')
        e.kw('event')
        e.kw('instance')
        e.id(varname)
        e.kw('of')
        e.node(spec)
        e.kw('to')
        if kind == 'instance':
            e.node(target)
        else:
            e.id(target)
            e.kw(kind)
    if kind == 'instance':
        return N('CreateInstanceEventNode', dict(variable_name=varname), [spec, target], emit=emit)
    cls = 'CreateCreatorEventNode' if kind == 'creator' else 'CreateClassEventNode'
    return N(cls, dict(variable_name=varname, key_letter=target), [spec], emit=emit)


def generate_preexisting(target):
    def emit(e, n):
        e.kw('generate')
        e.node(target)
    return N('GeneratePreexistingNode', {}, [target], emit=emit)


def send_event(port, action, items, to_expr):
    pl = params(items)

    def emit(e, n):
        e.kw('send')
        e.id(port)
        e.glued()
        e.p('::')
        e.id(action)
        e.p('(')
        e.node(pl)
        e.p(')')
        e.kw('to')
        e.node(to_expr)
    return N('GeneratePortEventNode', dict(port_name=port, action_name=action), [pl, to_expr], emit=emit)


# ---------------------------------------------------------------------------
# strict structural comparison with a bridgepoint.oal tree
# ---------------------------------------------------------------------------

def compare(exp, got, path='root', positions=False, text=None, problems=None, limit=5):
    '''
    -> list of (kind, path, message). kind: 'structure' | 'position'.
    '''
    if problems is None:
        problems = []
    if len(problems) >= limit:
        return problems
    if exp is None or isinstance(exp, str):
        if got != exp:
            problems.append(('structure', path, 'expected %r, got %r' % (exp, describe(got))))
        return problems
    if got is None or isinstance(got, str):
        problems.append(('structure', path, 'expected a %s, got %r' % (exp.cls, got)))
        return problems
    name = type(got).__name__
    if name != exp.cls and name not in (exp.alt_cls or ()):
        problems.append(('structure', path, 'expected a %s, got a %s' % (exp.cls, name)))
        return problems
    seen = set()
    for k, v in exp.fields.items():
        seen.add(k)
        g = getattr(got, k, '<absent>')
        same = (g.lower() == v.lower()) if (k in exp.kw and isinstance(g, str) and isinstance(v, str)) else g == v
        if not same:
            problems.append(('structure', path, '%s.%s is %r, expected %r' % (name, k, g, v)))
    for k, g in vars(got).items():
        if k in seen or k in ('position', 'character_stream'):
            continue
        if g is None and any(kid is None for kid in exp.kids):
            continue         # an absent child (e.g. no else clause, bare return)
        if g is None or isinstance(g, (str, int, float, bool)):
            problems.append(('structure', path, '%s has an unexpected field %s=%r' % (name, k, g)))
    kids = list(got.children)
    if len(kids) != len(exp.kids):
        problems.append(('structure', path, '%s has %d children, expected %d' % (name, len(kids), len(exp.kids))))
        return problems
    if positions and exp.checked and exp.pos is not None:
        p = got.position
        mine = exp.pos
        if p is None:
            problems.append(('position', path, '%s carries no position' % name))
        else:
            theirs = (p.start_line, p.start_column, p.end_line, p.end_column)
            if theirs != tuple(mine[:4]):
                problems.append(('position', path, '%s at %r (start line, start column, end line, end column), '
                                 'its tokens are at %r' % (name, theirs, tuple(mine[:4]))))
            elif text is not None and got.character_stream != text[mine[4]:mine[5]]:
                problems.append(('position', path, '%s character_stream %r, source substring %r'
                                 % (name, got.character_stream, text[mine[4]:mine[5]])))
    for i, (e, g) in enumerate(zip(exp.kids, kids)):
        compare(e, g, '%s/%s[%d]' % (path, exp.cls, i), positions, text, problems, limit)
    return problems


def describe(x):
    if x is None or isinstance(x, str):
        return x
    return type(x).__name__
