'''
Shard worker: imports the scratch build, runs one shard of one check and
writes its result as JSON. Started by vf.runner via subprocess.run(timeout=).
'''
import importlib
import json
import os
import sys
import traceback


def install_reach(root):
    '''
    sys.monitoring based record of which repository functions executed
    (PY_START, DISABLE after the first hit per code object: ~0 overhead).
    '''
    reached = set()
    mon = getattr(sys, 'monitoring', None)
    if mon is None:
        return reached
    tool = 3
    try:
        mon.use_tool_id(tool, 'verif-reach')
    except ValueError:
        return reached
    prefix = os.path.abspath(root) + os.sep

    def on_start(code, offset):
        fn = code.co_filename
        if fn.startswith(prefix) and 'tab.py' not in fn:
            reached.add('%s:%s' % (fn[len(prefix):], code.co_qualname))
        return mon.DISABLE

    mon.register_callback(tool, mon.events.PY_START, on_start)
    events = mon.events.PY_START
    if os.environ.get('VERIF_LINECOV'):
        # line coverage of the scratch build (each line reported once, then disabled): used by
        # tools/linecov.py to find mechanisms the workload never drives
        def on_line(code, line):
            fn = code.co_filename
            if fn.startswith(prefix) and 'tab.py' not in fn:
                LINES.add((fn[len(prefix):], line))
            return mon.DISABLE
        mon.register_callback(tool, mon.events.LINE, on_line)
        events |= mon.events.LINE
    mon.set_events(tool, events)
    return reached


LINES = set()


def die_with_parent():
    '''a worker must not outlive its runner (PR_SET_PDEATHSIG = 1)'''
    try:
        import ctypes
        import signal
        ctypes.CDLL(None, use_errno=True).prctl(1, int(signal.SIGKILL), 0, 0, 0)
        if os.getppid() == 1:
            os._exit(3)
    except Exception:
        pass


def limit_memory():
    '''
    a runaway allocation (e.g. a seeded change that makes a set grow without end) must end as a MemoryError in
    this worker, not as the kernel's out-of-memory killer picking processes of other runs
    '''
    try:
        import resource
        cap = int(os.environ.get('VERIF_WORKER_MEMORY_GB', '3')) * 1024 ** 3
        resource.setrlimit(resource.RLIMIT_AS, (cap, cap))
    except Exception:
        pass


def main():
    die_with_parent()
    limit_memory()
    args = json.loads(sys.argv[1])
    here = os.path.dirname(os.path.dirname(os.path.abspath(__file__)))
    deps = os.path.join(here, '.deps')
    if os.path.isdir(deps) and deps not in sys.path:
        sys.path.append(deps)
    sys.setrecursionlimit(10000)
    from vf import build
    from vf.ctx import Ctx, Stop, jsonable
    out = dict(status='error', error=None)
    try:
        build.activate(args['root'])
    except Exception as e:
        out = dict(status='inconclusive', error='build: %s' % e)
        json.dump(out, open(args['out'], 'w'))
        return 2
    reached = install_reach(args['root'])
    ctx = Ctx(args['check'], args['tier'], args['seed'], args['shard'],
              args['nshards'], args['root'], args.get('params'))
    try:
        mod = importlib.import_module('vf.checks.' + args['check'].lower())
        try:
            mod.run(ctx)
        except Stop:
            pass
        out = ctx.result()
        out['status'] = 'ok'
    except Exception as e:
        # an exception escaping from the code under test is a finding (the
        # workload is in the property's domain); one raised by the harness
        # itself makes the run inconclusive
        tb = traceback.extract_tb(e.__traceback__)
        inner = tb[-1]
        prefix = os.path.abspath(args['root']) + os.sep
        if inner.filename.startswith(prefix) or '/ply/' in inner.filename:
            lib = [f for f in tb if f.filename.startswith(prefix)][-1]
            ctx.violations.append(dict(
                key='crash/%s@%s' % (type(e).__name__, lib.name),
                what='unexpected %s escaped from %s:%s during the workload: %s'
                     % (type(e).__name__, lib.filename[len(prefix):], lib.name, e),
                case=dict(traceback=traceback.format_exc()[-3000:]), shard=ctx.shard))
            out = ctx.result()
            out['status'] = 'ok'
        else:
            out = ctx.result()
            out['status'] = 'error'
            out['error'] = traceback.format_exc()
    out['reached'] = sorted(reached)
    if LINES:
        out['lines'] = sorted(LINES)
    with open(args['out'], 'w') as f:
        json.dump(jsonable(out), f)
    return 0


if __name__ == '__main__':
    sys.exit(main())
