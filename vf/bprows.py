'''
Independent reader of BridgePoint model files: INSERT statements -> rows ->
vf.bpsynth.Diagram, plus row-level edit operations. Used to apply edit scripts
to real models (tests/resources/Simple_Model.xtuml) and state what the edited
model means without going through pyxtuml.
'''
import re
import uuid

from vf import bpsynth as bp

STMT = re.compile(r"INSERT\s+INTO\s+(\w+)\s+VALUES\s*\(", re.I)
VALUE = re.compile(r"""\s*(?:'((?:''|[^'])*)'|"([^"]*)"|(-?\d+\.\d+)|(-?\d+))\s*(,|\))""", re.S)


def parse(text):
    '''-> [(KIND, [python values])] (strings unescaped, ids as int)'''
    out = []
    pos = 0
    while True:
        m = STMT.search(text, pos)
        if not m:
            break
        kind = m.group(1)
        pos = m.end()
        vals = []
        while True:
            v = VALUE.match(text, pos)
            if not v:
                raise ValueError('cannot read a value of %s at %d: %r' % (kind, pos, text[pos:pos + 40]))
            if v.group(1) is not None:
                vals.append(v.group(1).replace("''", "'"))
            elif v.group(2) is not None:
                vals.append(uuid.UUID(v.group(2)).int)
            elif v.group(3) is not None:
                vals.append(float(v.group(3)))
            else:
                vals.append(int(v.group(4)))
            pos = v.end()
            if v.group(5) == ')':
                break
        out.append((kind, vals))
    return out


def named(stmts):
    '''-> [(KIND, {column: value})] for kinds known to the schema'''
    cols = bp.columns()
    out = []
    for kind, vals in stmts:
        if kind not in cols:
            out.append((kind, None))
            continue
        out.append((kind, dict((c, v) for (c, _), v in zip(cols[kind], vals))))
    return out


def render(stmts, rng=None):
    cols = bp.columns()
    lines = []
    for kind, vals in stmts:
        if kind in cols:
            txt = ', '.join(bp.sql_value(ty, v) for (c, ty), v in zip(cols[kind], vals))
        else:
            txt = ', '.join(("'%s'" % v.replace("'", "''")) if isinstance(v, str) else
                            ('%f' % v if isinstance(v, float) else
                             ('"%s"' % uuid.UUID(int=v) if v > 2 ** 40 else str(v))) for v in vals)
        lines.append('INSERT INTO %s VALUES (%s);' % (kind, txt))
    if rng is not None:
        rng.shuffle(lines)
    return '\n'.join(lines) + '\n'


def diagram_from_rows(stmts, component_name=None):
    rows = named(stmts)

    def of(kind):
        return [r for k, r in rows if k == kind and r is not None]
    d = bp.Diagram()
    d.component = component_name
    # data types
    dtname = dict((bp.core_id(n), n) for n in bp.CORE)
    for r in of('S_DT'):
        dtname[r['DT_ID']] = r['Name']
    udt_base = dict((r['DT_ID'], r['CDT_DT_ID']) for r in of('S_UDT'))
    edts = set(r['DT_ID'] for r in of('S_EDT'))
    # containment
    pe = dict((r['Element_ID'], r) for r in of('PE_PE'))
    comps = dict((r['Id'], r['Name']) for r in of('C_C'))

    def in_component(elem, depth=0):
        p = pe.get(elem)
        if p is None or depth > 20:
            return False
        if p['Component_ID'] and comps.get(p['Component_ID']) == component_name:
            return True
        if p['Component_ID']:
            return in_component(p['Component_ID'], depth + 1)
        if p['Package_ID']:
            return in_component(p['Package_ID'], depth + 1)
        return False

    def where(elem):
        return 'comp' if component_name and in_component(elem) else 'pkg'
    for dt, name in dtname.items():
        if dt in edts:
            enums = [r for r in of('S_ENUM') if r['EDT_DT_ID'] == dt]
            order, prev = [], 0
            while True:
                nxt = [e for e in enums if e['Previous_Enum_ID'] == prev and e['Name'] not in order]
                if not nxt:
                    break
                order.append(nxt[0]['Name'])
                prev = nxt[0]['Enum_ID']
            d.enums.append((name, order, where(dt)))
        elif dt in udt_base:
            d.udts.append((name, dtname.get(udt_base[dt]), where(dt)))
    # classes
    kl_of = {}
    attr_name = {}
    rattr = set((r['Attr_ID']) for r in of('O_RATTR'))
    dbattr = dict((r['Attr_ID'], r['Action_Semantics_internal']) for r in of('O_DBATTR'))
    for o in of('O_OBJ'):
        kl_of[o['Obj_ID']] = o['Key_Lett']
    for o in of('O_OBJ'):
        attrs = [a for a in of('O_ATTR') if a['Obj_ID'] == o['Obj_ID']]
        ordered, prev = [], 0
        while True:
            nxt = [a for a in attrs if a['PAttr_ID'] == prev and a not in ordered]
            if not nxt:
                break
            ordered.append(nxt[0])
            prev = nxt[0]['Attr_ID']
        alist = []
        for a in ordered:
            attr_name[a['Attr_ID']] = a['Name']
            if a['Attr_ID'] in rattr:
                alist.append(bp.Attr(a['Name'], None))
            else:
                alist.append(bp.Attr(a['Name'], dtname.get(a['DT_ID']), derived=dbattr.get(a['Attr_ID'])))
        oids = sorted(set(r['Oid_ID'] for r in of('O_ID') if r['Obj_ID'] == o['Obj_ID']))
        idents = []
        for n in range((max(oids) + 1) if oids else 0):
            idents.append([x['Attr_ID'] for x in of('O_OIDA') if x['Obj_ID'] == o['Obj_ID'] and x['Oid_ID'] == n])
        d.classes.append(bp.Cls(o['Name'], o['Key_Lett'], o['Numb'], alist, idents, where=where(o['Obj_ID'])))
    for c in d.classes:
        c.identifiers = [[attr_name[a] for a in ids] for ids in c.identifiers]
    # relationships
    refs = of('O_REF')

    def pairs(rgo_oir, rto_oir):
        return [(attr_name[r['Attr_ID']], attr_name[r['RAttr_ID']]) for r in refs
                if r['OIR_ID'] == rgo_oir and r['ROIR_ID'] == rto_oir]
    rto_oid = dict((r['OIR_ID'], r['Oid_ID']) for r in of('R_RTO'))
    for rel in of('R_REL'):
        rid = rel['Rel_ID']
        w = where(rid)
        form = [r for r in of('R_FORM') if r['Rel_ID'] == rid]
        part = [r for r in of('R_PART') if r['Rel_ID'] == rid]
        if any(r['Rel_ID'] == rid for r in of('R_SIMP')) and form and part:
            f, p = form[0], part[0]
            d.rels.append(bp.Simple(rel['Numb'], bp.End(kl_of[f['Obj_ID']], f['Mult'], f['Cond'], f['Txt_Phrs']),
                                    bp.End(kl_of[p['Obj_ID']], p['Mult'], p['Cond'], p['Txt_Phrs']),
                                    pairs(f['OIR_ID'], p['OIR_ID']), rto_oid.get(p['OIR_ID'], 0), w))
        elif any(r['Rel_ID'] == rid for r in of('R_ASSOC')):
            one = [r for r in of('R_AONE') if r['Rel_ID'] == rid][0]
            oth = [r for r in of('R_AOTH') if r['Rel_ID'] == rid][0]
            assr = [r for r in of('R_ASSR') if r['Rel_ID'] == rid][0]
            d.rels.append(bp.Linked(rel['Numb'],
                                    bp.End(kl_of[one['Obj_ID']], one['Mult'], one['Cond'], one['Txt_Phrs']),
                                    bp.End(kl_of[oth['Obj_ID']], oth['Mult'], oth['Cond'], oth['Txt_Phrs']),
                                    kl_of[assr['Obj_ID']], assr['Mult'],
                                    pairs(assr['OIR_ID'], one['OIR_ID']), pairs(assr['OIR_ID'], oth['OIR_ID']), w))
        elif any(r['Rel_ID'] == rid for r in of('R_SUBSUP')):
            sup = [r for r in of('R_SUPER') if r['Rel_ID'] == rid][0]
            subs = []
            for s in [r for r in of('R_SUB') if r['Rel_ID'] == rid]:
                subs.append((kl_of[s['Obj_ID']], pairs(s['OIR_ID'], sup['OIR_ID'])))
            d.rels.append(bp.SubSuper(rel['Numb'], kl_of[sup['Obj_ID']], subs, w))
    return d


# ---------------------------------------------------------------------------
# row-level edits: each returns a list of (description, edited statements)
# ---------------------------------------------------------------------------

def col_index(kind, col):
    return [c for c, _ in bp.columns()[kind]].index(col)


def edit_sites(stmts):
    '''all applicable single edits of a model as (description, function(stmts copy) -> None)'''
    sites = []
    for n, (kind, vals) in enumerate(stmts):
        if kind in ('R_FORM', 'R_PART', 'R_AONE', 'R_AOTH'):
            for col in ('Mult', 'Cond'):
                i = col_index(kind, col)
                sites.append(('toggle %s.%s of row %d' % (kind, col, n),
                              lambda s, n=n, i=i: s[n][1].__setitem__(i, 1 - s[n][1][i])))
            i = col_index(kind, 'Txt_Phrs')
            sites.append(('change phrase of %s row %d' % (kind, n),
                          lambda s, n=n, i=i: s[n][1].__setitem__(i, (s[n][1][i] or 'p') + ' x')))
        if kind == 'O_ATTR':
            i = col_index(kind, 'Name')
            sites.append(('rename attribute row %d' % n,
                          lambda s, n=n, i=i: s[n][1].__setitem__(i, s[n][1][i] + '_renamed')))
            j = col_index(kind, 'DT_ID')
            if vals[j] != bp.core_id('same_as<Base_Attribute>'):
                for t in ('string', 'integer', 'boolean', 'real'):
                    if vals[j] != bp.core_id(t):
                        sites.append(('retype attribute row %d to %s' % (n, t),
                                      lambda s, n=n, j=j, t=t: s[n][1].__setitem__(j, bp.core_id(t))))
                        break
            else:
                # a referential attribute that carries a type of its own (as models of older tool versions do):
                # its type remains the one of the attribute it refers to
                sites.append(('retype referential attribute row %d to string' % n,
                              lambda s, n=n, j=j: s[n][1].__setitem__(j, bp.core_id('string'))))
    # reorder: swap two consecutive attributes of a class
    pi = col_index('O_ATTR', 'PAttr_ID')
    ai = col_index('O_ATTR', 'Attr_ID')
    oi = col_index('O_ATTR', 'Obj_ID')
    attrs = [(n, v) for n, (k, v) in enumerate(stmts) if k == 'O_ATTR']
    for n, v in attrs:
        prev = [(m, w) for m, w in attrs if w[ai] == v[pi] and w[oi] == v[oi]]
        if not prev:
            continue
        m, w = prev[0]
        nxt = [(q, x) for q, x in attrs if x[pi] == v[ai] and x[oi] == v[oi]]

        def swap(s, n=n, m=m, nxt=nxt):
            a, b = s[m][1], s[n][1]           # a precedes b: make b precede a
            b[pi] = a[pi]
            a[pi] = b[ai]
            for q, _ in nxt:
                s[q][1][pi] = a[ai]
        sites.append(('swap attribute rows %d and %d' % (m, n), swap))
    return sites
