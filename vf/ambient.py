'''
Ambient monitors: the repository's own test-suite as one more workload.

The monitors of C02 (link mirror, atomicity of rejected calls, effect of accepted calls), C17 (structural invariant
of every ordered set that is mutated) and C19 (defaulted ids non-null and fresh per metamodel) are attached from
outside to the freshly imported modules of the scratch build - by replacing the function objects in every module that
holds a reference to them - and the 244 tests of the repository are then run in this process. The tests themselves
decide nothing here; what counts is what the monitors see while the library is driven through call patterns no
generator of mine produces (the ooaofooa schema with its 320 classes, the prebuilder, the interpreter, the loaders of
whole BridgePoint models, the consistency tools).

A monitor never raises into the code it observes: it records, the caller reports afterwards.
'''
import os
import sys


class Record(object):
    def __init__(self):
        self.problems = []        # (key, text)
        self.counts = {}

    def hit(self, name, n=1):
        self.counts[name] = self.counts.get(name, 0) + n

    def problem(self, key, text):
        if len(self.problems) < 50:
            self.problems.append((key, text))


def replace_everywhere(old, new):
    '''rebind every module-level name that holds *old* (from m import f binds early)'''
    n = 0
    for mod in list(sys.modules.values()):
        d = getattr(mod, '__dict__', None)
        if not d:
            continue
        for k, v in list(d.items()):
            if v is old:
                d[k] = new
                n += 1
    return n


def attach(rec, what=('links', 'sets', 'ids')):
    import xtuml
    import xtuml.meta as meta
    import xtuml.tools as tools
    import bridgepoint            # noqa: all its modules are imported before the names are rebound
    from bridgepoint import ooaofooa, prebuild, interpret, sourcegen, gen_xsd_schema, gen_sql_schema  # noqa
    from bridgepoint import consistency_check as _cc  # noqa
    from xtuml import consistency_check as _xc  # noqa
    undo = []

    if 'links' in what:
        documented = (meta.RelateException, meta.UnrelateException, meta.UnknownLinkException)
        cache = {}

        def associations(inst, rel_id):
            mm = meta.get_metaclass(inst).metamodel
            rid = 'R%d' % rel_id if isinstance(rel_id, int) else rel_id
            key = (id(mm), len(mm.associations))
            if cache.get('key') != key:
                cache.clear()
                cache['key'] = key
                for ass in mm.associations:
                    cache.setdefault(ass.rel_id, []).append(ass)
            return cache.get(rid, [])

        def rows(asses, insts):
            out = []
            for ass in asses:
                for link in (ass.source_link, ass.target_link):
                    for x in insts:
                        out.append(tuple(id(y) for y in link.get(x, ())))
            return out

        def linked(asses, a, b):
            for ass in asses:
                sl, tl = ass.source_link, ass.target_link
                if (b in sl.get(a, ()) and a in tl.get(b, ())) or (a in sl.get(b, ()) and b in tl.get(a, ())):
                    return True
            return False

        def half_linked(asses, a, b):
            '''the pair on one link without its mirror image on the opposite link'''
            for ass in asses:
                sl, tl = ass.source_link, ass.target_link
                for x, y in ((a, b), (b, a)):
                    if (y in sl.get(x, ())) != (x in tl.get(y, ())):
                        return '%s: %s -> %s on one link only' % (ass.rel_id, x.__class__.__name__, y.__class__.__name__)
            return None

        def wrap_pair(orig, name):
            def monitored(from_instance, to_instance, rel_id, phrase=''):
                a, b = from_instance, to_instance
                if a is None or b is None or not isinstance(a, meta.Class) or not isinstance(b, meta.Class):
                    return orig(from_instance, to_instance, rel_id, phrase)
                try:
                    asses = associations(a, rel_id)
                except Exception:
                    return orig(from_instance, to_instance, rel_id, phrase)
                before = rows(asses, (a, b))
                was = linked(asses, a, b)
                dicts = (dict(a.__dict__), dict(b.__dict__))
                try:
                    res = orig(from_instance, to_instance, rel_id, phrase)
                except documented as e:
                    rec.hit('%s.rejected' % name)
                    if rows(asses, (a, b)) != before or (dict(a.__dict__), dict(b.__dict__)) != dicts:
                        rec.problem('ambient/atomicity/%s' % type(e).__name__,
                                    'a rejected %s(%s, %s, %r, %r) changed the links or the instances'
                                    % (name, a.__class__.__name__, b.__class__.__name__, rel_id, phrase))
                    raise
                rec.hit('%s.accepted' % name)
                bad = half_linked(asses, a, b)
                if bad:
                    rec.problem('ambient/mirror', 'after %s(..., %r, %r): %s' % (name, rel_id, phrase, bad))
                if res is True and a is not b:
                    now = linked(asses, a, b)
                    if name == 'relate':
                        if not now:
                            rec.problem('ambient/relate-without-link', 'relate(%s, %s, %r, %r) returned True, the pair '
                                        'is not linked' % (a.__class__.__name__, b.__class__.__name__, rel_id, phrase))
                        if was and rows(asses, (a, b)) != before:
                            rec.problem('ambient/relate-again-not-a-no-op', 'relating an already related pair across %r '
                                        'changed the links' % (rel_id,))
                            rec.hit('relate.already-related')
                    else:
                        if not was:
                            rec.problem('ambient/unrelate-of-unlinked-pair-accepted', 'unrelate across %r of a pair that '
                                        'was not linked returned True' % (rel_id,))
                        n0 = sum(len(r) for r in before)
                        n1 = sum(len(r) for r in rows(asses, (a, b)))
                        if was and n0 - n1 != 2:
                            rec.problem('ambient/unrelate-effect', 'unrelate across %r removed %d link ends of the pair, '
                                        'expected 2' % (rel_id, n0 - n1))
                return res
            monitored.__name__ = orig.__name__
            monitored.__doc__ = orig.__doc__
            return monitored

        for fname in ('relate', 'unrelate'):
            orig = getattr(meta, fname)
            new = wrap_pair(orig, fname)
            replace_everywhere(orig, new)
            undo.append((new, orig))

        orig_delete = meta.MetaClass.delete

        def delete(self, instance, disconnect=True):
            partners = []
            if disconnect:
                for link in self.links.values():
                    for other in list(link.get(instance, ())):
                        partners.append((link, other))
            n = len(self.storage)
            try:
                res = orig_delete(self, instance, disconnect)
            except meta.DeleteException:
                rec.hit('delete.rejected')
                if len(self.storage) != n:
                    rec.problem('ambient/atomicity/DeleteException', 'a rejected delete changed the instance pool')
                raise
            rec.hit('delete.accepted')
            if disconnect:
                if any(x is instance for x in self.storage):
                    rec.problem('ambient/delete', 'the deleted instance is still in the pool')
                for link, other in partners:
                    mc = meta.get_metaclass(other)
                    for back in mc.links.values():
                        if back.rel_id == link.rel_id and instance in back.get(other, ()):
                            rec.problem('ambient/deleted-instance-reachable', 'after delete the %s is still reachable '
                                        'from a %s across %s' % (instance.__class__.__name__,
                                                                 other.__class__.__name__, link.rel_id))
                    rec.hit('delete.partners-checked')
            return res
        meta.MetaClass.delete = delete
        undo.append(('MetaClass.delete', orig_delete))

    if 'sets' in what:
        from vf.checks import c17
        state = dict(n=0)

        def wrap_mutator(cls, mname):
            orig = getattr(cls, mname)

            def monitored(self, *args, **kw):
                try:
                    return orig(self, *args, **kw)
                finally:
                    state['n'] += 1
                    if len(self.map) <= 12 or state['n'] % 97 == 0:
                        rec.hit('OrderedSetInv.ambient')
                        bad = c17.invariant(self)
                        if bad:
                            rec.problem('ambient/ordered-set-invariant', 'after %s on a set of %d: %s'
                                        % (mname, len(self.map), bad))
            monitored.__name__ = mname
            setattr(cls, mname, monitored)
            undo.append((cls, mname, orig))

        for mname in ('add', 'discard', 'pop', 'clear'):
            if mname in tools.OrderedSet.__dict__:
                wrap_mutator(tools.OrderedSet, mname)

    if 'queries' in what:
        # C09 under the repository's own workloads: every selection from a class and every navigation chain is answered a
        # second time by a naive evaluation (list comprehensions over the pool, relational composition over the link
        # tables, an insertion sort) and compared element by element. Predicates are called once only (by the library):
        # their verdict per instance is recorded and replayed, because a where clause may run OAL with effects.
        import collections

        class Unknown(Exception):
            pass

        def recording(op, memo):
            def pred(x):
                r = op(x)
                memo[id(x)] = bool(r)
                return r
            return pred

        def prepare(args):
            ops, memos = [], []
            for op in args:
                if isinstance(op, (dict, meta.OrderBy)) or not callable(op):
                    ops.append(op)
                    memos.append(None)
                else:
                    memo = {}
                    ops.append(recording(op, memo))
                    memos.append(memo)
            return ops, memos

        def insertion_sort(seq, names, reverse):
            out = []
            for x in seq:
                k = [getattr(x, n) for n in names]
                i = len(out)
                while i > 0:
                    kp = out[i - 1][0]
                    if (kp < k) if reverse else (k < kp):
                        i -= 1
                    else:
                        break
                out.insert(i, (k, x))
            return [x for _, x in out]

        def naive(seq, args, memos, first_only=False):
            seq = list(seq)
            for op, memo in zip(args, memos):
                if isinstance(op, meta.OrderBy):
                    seq = insertion_sort(seq, list(op), op.reverse)
                elif isinstance(op, dict):
                    seq = [x for x in seq if all(getattr(x, k) == v for k, v in op.items())]
                else:
                    out = []
                    for x in seq:
                        if id(x) not in memo:
                            if first_only and out:
                                break       # a lazy evaluation need not have looked further
                            raise Unknown()
                        if memo[id(x)]:
                            out.append(x)
                    seq = out
            res = []
            seen = set()
            for x in seq:
                if id(x) not in seen:
                    seen.add(id(x))
                    res.append(x)
            return res

        def same(a, b):
            return len(a) == len(b) and all(x is y for x, y in zip(a, b))

        def names(seq):
            return [x.__class__.__name__ for x in seq][:8]

        def wrap_select(mname, one):
            orig = getattr(meta.MetaClass, mname)

            def monitored(self, *args):
                pool = list(self.storage)
                ops, memos = prepare(args)
                res = orig(self, *ops)
                if len(self.storage) != len(pool):
                    return res
                try:
                    want = naive(pool, args, memos, first_only=one)
                except Unknown:
                    rec.hit('QueryRef.ambient-not-decidable')
                    return res
                except Exception:
                    rec.hit('QueryRef.ambient-naive-evaluation-failed')
                    return res
                rec.hit('QueryRef.ambient-select')
                if one:
                    if res is not (want[0] if want else None):
                        rec.problem('ambient/select-one', '%s.%s: the library gave %r, the first of the naive evaluation '
                                    'is %r (pool of %d)' % (self.kind, mname, res, want[:1], len(pool)))
                else:
                    got = list(res)
                    if not same(got, want):
                        rec.problem('ambient/select-many', '%s.%s with %d operator(s): %d instances, the naive evaluation '
                                    'gives %d (or another order)' % (self.kind, mname, len(args), len(got), len(want)))
                    if want:
                        rec.hit('QueryRef.ambient-select-non-empty')
                return res
            monitored.__name__ = mname
            setattr(meta.MetaClass, mname, monitored)
            undo.append((meta.MetaClass, mname, orig))

        wrap_select('select_many', False)
        wrap_select('select_one', True)

        def partners(inst, kind, rel_id, phrase):
            '''the instances of *kind* linked to inst across rel_id / phrase, from the link tables'''
            mc = meta.get_metaclass(inst)
            if isinstance(rel_id, int):
                rel_id = 'R%d' % rel_id
            key = (kind.upper(), rel_id, phrase)
            if key in mc.links:
                return list(mc.links[key].get(inst, ()))
            out = []
            for (k1, r1, p1), link1 in mc.links.items():
                if r1 != rel_id or p1 != phrase:
                    continue
                mid_mc = mc.metamodel.find_metaclass(link1.kind)
                if key in mid_mc.links:
                    for mid in link1.get(inst, ()):
                        out.extend(mid_mc.links[key].get(mid, ()))
                    return out
            raise Unknown()

        orig_init = meta.NavChain.__init__
        orig_nav = meta.NavChain.nav

        def nav_init(self, handle):
            if handle is not None and not isinstance(handle, meta.Class) and isinstance(handle, collections.abc.Iterable):
                handle = list(handle)
            orig_init(self, handle)
            self.__dict__['_vf_start'] = list(self.handle)
            self.__dict__['_vf_steps'] = []

        def nav_nav(self, kind, relid, phrase=''):
            self.__dict__.setdefault('_vf_steps', []).append((kind, relid, phrase))
            return orig_nav(self, kind, relid, phrase)
        meta.NavChain.__init__ = nav_init
        meta.NavChain.nav = nav_nav
        undo.append((meta.NavChain, '__init__', orig_init))
        undo.append((meta.NavChain, 'nav', orig_nav))

        def wrap_chain(cls, one):
            orig = cls.__dict__['__call__']

            def monitored(self, *args):
                start = self.__dict__.get('_vf_start')
                steps = list(self.__dict__.get('_vf_steps', ()))
                ops, memos = prepare(args)
                res = orig(self, *ops)
                if start is None:
                    return res
                try:
                    cur = list(start)
                    for kind, relid, phrase in steps:
                        nxt = []
                        for x in cur:
                            nxt.extend(partners(x, kind, relid, phrase))
                        cur = nxt
                    want = naive(cur, args, memos, first_only=one)
                except Unknown:
                    rec.hit('QueryRef.ambient-not-decidable')
                    return res
                except Exception:
                    rec.hit('QueryRef.ambient-naive-evaluation-failed')
                    return res
                rec.hit('QueryRef.ambient-navigation')
                if len(steps) > 1:
                    rec.hit('QueryRef.ambient-navigation-of-several-steps')
                if one:
                    if res is not (want[0] if want else None):
                        rec.problem('ambient/navigate-one', 'chain %r from %r: the library gave %r, the composition of '
                                    'the link tables starts with %r' % (steps, names(start), res, want[:1]))
                else:
                    got = list(res)
                    if not same(got, want):
                        rec.problem('ambient/navigate-many', 'chain %r from %r: %d instances, the composition of the link '
                                    'tables gives %d (or another order)' % (steps, names(start), len(got), len(want)))
                    if len(want) > 1:
                        rec.hit('QueryRef.ambient-navigation-to-several')
                return res
            cls.__call__ = monitored
            undo.append((cls, '__call__', orig))

        wrap_chain(meta.NavChain, False)
        wrap_chain(meta.NavOneChain, True)

    if 'ids' in what:
        orig_default = meta.MetaClass.default_value
        seen = {}

        def default_value(self, type_name):
            v = orig_default(self, type_name)
            if type_name.upper() == 'UNIQUE_ID' and self.metamodel is not None:
                # (a metaclass that belongs to no metamodel has no generator to draw from)
                rec.hit('IdFresh.ambient')
                mine = seen.setdefault(id(self.metamodel), (self.metamodel, set()))[1]
                if not v:
                    rec.problem('ambient/id/null', 'a defaulted id of %s is the null id (%r)' % (self.kind, v))
                elif v in mine:
                    rec.problem('ambient/id/repeated', 'the defaulted id %r of %s was handed out before in this '
                                'metamodel' % (v, self.kind))
                mine.add(v)
            return v
        meta.MetaClass.default_value = default_value
        undo.append(('MetaClass.default_value', orig_default))
    return undo


def run_suite(ctx, what):
    '''
    Attach the monitors, run the repository's tests (a copy inside the scratch build) in this process, report what
    the monitors recorded. -> Record
    '''
    import subprocess
    from vf import build
    rec = Record()
    tests = os.path.join(ctx.root, 'tests')
    if not os.path.isdir(tests):
        subprocess.check_call(['rsync', '-a', '--exclude', '__pycache__', '--exclude', '*.pyc',
                               os.path.join(build.REPO, 'tests') + '/', tests + '/'])
    attach(rec, what)
    import pytest

    class Plugin(object):
        def __init__(self):
            self.passed = self.failed = 0

        def pytest_runtest_logreport(self, report):
            if report.when == 'call':
                if report.passed:
                    self.passed += 1
                elif report.failed:
                    self.failed += 1
    plugin = Plugin()
    cwd = os.getcwd()
    devnull = open(os.devnull, 'w')
    out, err = sys.stdout, sys.stderr
    try:
        os.chdir(ctx.root)
        sys.stdout = sys.stderr = devnull
        pytest.main(['-q', '-p', 'no:cacheprovider', '--timeout=900', tests], plugins=[plugin])
    finally:
        sys.stdout, sys.stderr = out, err
        devnull.close()
        os.chdir(cwd)
    rec.hit('Suite.tests-passed', plugin.passed)
    rec.hit('Suite.tests-failed', plugin.failed)
    return rec


def report(ctx, rec, prefix):
    '''hand what the monitors recorded to the check's context'''
    for k, v in rec.counts.items():
        ctx.hit('%s.%s' % (prefix, k), v)
    for key, text in rec.problems:
        ctx.violation(key, text + ' (seen while the repository\'s own tests ran under the monitors)',
                      case=dict(part='ambient', workload='tests/'))
    if rec.counts.get('Suite.tests-failed'):
        # a test that fails only here fails because of what a monitor does: harness error, not a finding
        raise AssertionError('%d tests of the repository fail under the ambient monitors'
                             % rec.counts['Suite.tests-failed'])
    ctx.case(('ambient', prefix), True)
