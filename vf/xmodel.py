'''
Schema descriptions, two construction routes (API / loader) and the
independent relational *shadow model* used as the oracle of C02, C09, C10, ...

Nothing in the Shadow reads library state: it is driven by the events
(call + arguments) of a history and predicts outcome and resulting state from
the sentences of the properties.
'''


class Rop(object):
    '''one formalised association: FROM <src> TO <tgt>'''

    def __init__(self, rel, src, src_keys, src_card, src_phrase,
                 tgt, tgt_keys, tgt_card, tgt_phrase):
        self.rel = rel                    # int
        self.src = src                    # referring class (kind)
        self.src_keys = list(src_keys)
        self.src_card = src_card          # '1' '1C' 'M' 'MC': how many *src* per tgt
        self.src_phrase = src_phrase
        self.tgt = tgt                    # referred class (kind)
        self.tgt_keys = list(tgt_keys)
        self.tgt_card = tgt_card          # how many *tgt* per src
        self.tgt_phrase = tgt_phrase

    @property
    def rel_id(self):
        return 'R%d' % self.rel

    def describe(self):
        return '%s: %s %s(%s)%s -> %s %s(%s)%s' % (
            self.rel_id, self.src_card, self.src, ','.join(self.src_keys),
            " '%s'" % self.src_phrase if self.src_phrase else '',
            self.tgt_card, self.tgt, ','.join(self.tgt_keys),
            " '%s'" % self.tgt_phrase if self.tgt_phrase else '')


class Schema(object):
    def __init__(self, classes, rops, uniques=()):
        self.classes = list(classes)      # [(kind, [(attr, type), ...])]
        self.rops = list(rops)
        self.uniques = list(uniques)      # [(kind, name, [attr, ...])]

    def attrs(self, kind):
        for k, attrs in self.classes:
            if k.upper() == kind.upper():
                return attrs
        raise KeyError(kind)

    def kinds(self):
        return [k for k, _ in self.classes]

    def referential(self, kind):
        res = set()
        for r in self.rops:
            if r.src.upper() == kind.upper():
                res |= set(r.src_keys)
        return res

    def sql(self):
        s = []
        for kind, attrs in self.classes:
            s.append('CREATE TABLE %s (%s);' % (kind, ', '.join('%s %s' % a for a in attrs)))
        for r in self.rops:
            s.append("CREATE ROP REF_ID %s FROM %s %s (%s)%s TO %s %s (%s)%s;" % (
                r.rel_id, r.src_card, r.src, ', '.join(r.src_keys),
                " PHRASE '%s'" % r.src_phrase if r.src_phrase else '',
                r.tgt_card, r.tgt, ', '.join(r.tgt_keys),
                " PHRASE '%s'" % r.tgt_phrase if r.tgt_phrase else ''))
        for kind, name, attrs in self.uniques:
            s.append('CREATE UNIQUE INDEX %s ON %s (%s);' % (name, kind, ', '.join(attrs)))
        return '\n'.join(s) + '\n'

    def to_json(self):
        return dict(classes=[[k, [list(a) for a in at]] for k, at in self.classes],
                    rops=[[r.rel, r.src, r.src_keys, r.src_card, r.src_phrase,
                           r.tgt, r.tgt_keys, r.tgt_card, r.tgt_phrase] for r in self.rops],
                    uniques=[[u[0], u[1], list(u[2])] for u in self.uniques],
                    external_refs=sorted(list(x) for x in getattr(self, 'external_refs', ())))

    @staticmethod
    def from_json(j):
        s = Schema([(k, [tuple(a) for a in at]) for k, at in j['classes']],
                   [Rop(*r) for r in j['rops']],
                   [(u[0], u[1], list(u[2])) for u in j['uniques']])
        if j.get('external_refs'):
            s.external_refs = set(tuple(x) for x in j['external_refs'])
        return s

    def describe(self):
        return dict(classes=[[k, ['%s:%s' % a for a in at]] for k, at in self.classes],
                    rops=[r.describe() for r in self.rops],
                    uniques=[list(u[:2]) + [list(u[2])] for u in self.uniques])


def build_api(schema, id_generator=None, factory=None, attr_form=list):
    import xtuml
    m = (factory or xtuml.MetaModel)(id_generator if id_generator is not None else xtuml.IntegerGenerator())
    for kind, attrs in schema.classes:
        m.define_class(kind, attr_form(attrs))
    for kind, name, attrs in schema.uniques:
        m.define_unique_identifier(kind, name, *attrs)
    for r in schema.rops:
        ass = m.define_association(r.rel, r.src, list(r.src_keys), 'M' in r.src_card,
                                   'C' in r.src_card, r.src_phrase, r.tgt,
                                   list(r.tgt_keys), 'M' in r.tgt_card,
                                   'C' in r.tgt_card, r.tgt_phrase)
        ass.formalize()
    return m


def build_loader(schema, id_generator=None):
    import xtuml
    l = xtuml.ModelLoader()
    l.input(schema.sql())
    return l.build_metamodel(id_generator if id_generator is not None else xtuml.IntegerGenerator())


# ---------------------------------------------------------------------------
# shadow model
# ---------------------------------------------------------------------------

class Outcome(object):
    OK = 'ok'
    FALSE = 'false'               # relate/unrelate with None: returns False
    RELATE = 'RelateException'
    UNRELATE = 'UnrelateException'
    UNKNOWN = 'UnknownLinkException'
    DELETE = 'DeleteException'
    AMBIGUOUS = 'ambiguous'       # the schema does not decide the direction


class Shadow(object):
    '''
    Plain relational state: per class an extent (creation order) of handles,
    per handle a row of non-referential values, per Rop an ordered list of
    (src handle, tgt handle) pairs in relate order.
    '''

    def __init__(self, schema):
        self.schema = schema
        self.extent = dict((k.upper(), []) for k in schema.kinds())
        self.kind = {}                 # handle -> KIND
        self.rows = {}                 # handle -> {attr: value}
        self.alive = {}
        self.pairs = [list() for _ in schema.rops]
        self.counter = 0

    # -- instances -----------------------------------------------------------
    def new(self, kind, values=None):
        h = self.counter
        self.counter += 1
        K = kind.upper()
        self.extent[K].append(h)
        self.kind[h] = K
        self.rows[h] = dict(values or {})
        self.alive[h] = True
        return h

    def delete(self, h):
        if not self.alive.get(h):
            return Outcome.DELETE
        self.alive[h] = False
        self.extent[self.kind[h]].remove(h)
        for i in range(len(self.pairs)):
            self.pairs[i] = [(s, t) for (s, t) in self.pairs[i] if s != h and t != h]
        return Outcome.OK

    # -- link resolution ------------------------------------------------------
    def resolve(self, x, y, rel, phrase):
        '''
        -> list of (rop index, src handle, tgt handle) for a call
        relate/unrelate/navigate(x, y, rel, phrase).
        '''
        kx, ky = self.kind[x], self.kind[y]
        res = []
        for i, r in enumerate(self.schema.rops):
            if r.rel != rel:
                continue
            # x is the referring (src) instance: link src->tgt carries the src phrase
            if r.src.upper() == kx and r.tgt.upper() == ky and r.src_phrase == phrase:
                res.append((i, x, y))
            # x is the referred (tgt) instance: link tgt->src carries the tgt phrase
            if r.tgt.upper() == kx and r.src.upper() == ky and r.tgt_phrase == phrase:
                res.append((i, y, x))
        return res

    def relate(self, x, y, rel, phrase=''):
        if x is None or y is None:
            return Outcome.FALSE
        res = self.resolve(x, y, rel, phrase)
        if not res:
            return Outcome.UNKNOWN
        if len(set(res)) > 1:
            return Outcome.AMBIGUOUS
        i, s, t = res[0]
        r = self.schema.rops[i]
        if (s, t) in self.pairs[i]:
            return Outcome.OK
        if 'M' not in r.src_card and any(tt == t for (_, tt) in self.pairs[i]):
            return Outcome.RELATE
        if 'M' not in r.tgt_card and any(ss == s for (ss, _) in self.pairs[i]):
            return Outcome.RELATE
        self.pairs[i].append((s, t))
        return Outcome.OK

    def unrelate(self, x, y, rel, phrase=''):
        if x is None or y is None:
            return Outcome.FALSE
        res = self.resolve(x, y, rel, phrase)
        if not res:
            return Outcome.UNKNOWN
        if len(set(res)) > 1:
            return Outcome.AMBIGUOUS
        i, s, t = res[0]
        if (s, t) not in self.pairs[i]:
            return Outcome.UNRELATE
        self.pairs[i].remove((s, t))
        return Outcome.OK

    # -- reads -----------------------------------------------------------------
    def partners(self, i, h, forward):
        '''ordered partners of h across rop i: forward = from src to tgt'''
        if forward:
            return [t for (s, t) in self.pairs[i] if s == h]
        return [s for (s, t) in self.pairs[i] if t == h]

    def navigate(self, h, kind, rel, phrase=''):
        '''
        Handles reached from h by ->kind[rel, phrase]; None when no such link
        exists (the library raises UnknownLinkException then).
        '''
        kh, K = self.kind[h], kind.upper()
        found = False
        out = []
        for i, r in enumerate(self.schema.rops):
            if r.rel != rel:
                continue
            if r.src.upper() == kh and r.tgt.upper() == K and r.src_phrase == phrase:
                found = True
                out += [t for t in self.partners(i, h, True) if t not in out]
            if r.tgt.upper() == kh and r.src.upper() == K and r.tgt_phrase == phrase:
                found = True
                out += [s for s in self.partners(i, h, False) if s not in out]
        if found:
            return out
        # two hops through an association class: h ->M[rel, phrase] ->kind[rel, phrase]
        for i, r in enumerate(self.schema.rops):
            if r.rel != rel:
                continue
            mids = []
            if r.src.upper() == kh and r.src_phrase == phrase:
                mids.append(r.tgt.upper())
            if r.tgt.upper() == kh and r.tgt_phrase == phrase:
                mids.append(r.src.upper())
            for M in mids:
                if M in (kh, K) and M == K:
                    continue
                probe = self._direct(M, K, rel, phrase)
                if not probe:
                    continue
                found = True
                for mid in self.navigate(h, M, rel, phrase) or []:
                    for x in self.navigate(mid, K, rel, phrase) or []:
                        if x not in out:
                            out.append(x)
                return out
        return None

    def _direct(self, frm, to, rel, phrase):
        for r in self.schema.rops:
            if r.rel != rel:
                continue
            if r.src.upper() == frm and r.tgt.upper() == to and r.src_phrase == phrase:
                return True
            if r.tgt.upper() == frm and r.src.upper() == to and r.tgt_phrase == phrase:
                return True
        return False

    def read(self, h, attr, depth=0):
        '''
        -> set of acceptable values of attribute *attr* of *h*. A referential
        attribute reads as the corresponding identifying attribute of the
        linked instance, None when not linked (when it formalises several
        associations with disagreeing partners either is acceptable).
        '''
        K = self.kind[h]
        name = self.attr_name(K, attr)
        vals = set()
        is_ref = False
        for i, r in enumerate(self.schema.rops):
            if r.src.upper() != K:
                continue
            for k, kk in zip(r.src_keys, r.tgt_keys):
                if k.upper() != name.upper():
                    continue
                is_ref = True
                for t in self.partners(i, h, True)[:1]:
                    if depth < 8:
                        vals |= self.read(t, kk, depth + 1)
        if not is_ref:
            if (K, name.upper()) in getattr(self.schema, 'external_refs', ()):
                return set([None])       # referential through an association the schema leaves out: never linked
            return set([self.rows[h].get(name)])
        return vals or set([None])

    def attr_name(self, K, attr):
        for a, _ in self.schema.attrs(K):
            if a.upper() == attr.upper():
                return a
        raise KeyError(attr)

    def links_of(self, h):
        return [(i, s, t) for i in range(len(self.pairs)) for (s, t) in self.pairs[i]
                if s == h or t == h]

    def canon(self):
        return (tuple((k, tuple(v)) for k, v in sorted(self.extent.items())),
                tuple(tuple(p) for p in self.pairs))


# ---------------------------------------------------------------------------
# observation of the real model
# ---------------------------------------------------------------------------

def mirror_problems(metamodel):
    '''
    LinkMirror: x->y on one Link iff y->x on the opposite Link; only live
    instances are reachable. Reads Link dicts directly (white-box, cheap) -
    the public-API comparison is done by compare().
    '''
    import xtuml
    probs = []
    live = set()
    for mc in metamodel.metaclasses.values():
        for inst in mc.storage:
            live.add(id(inst))
    for ass in metamodel.associations:
        for a, b, na, nb in ((ass.source_link, ass.target_link, 'source', 'target'),
                             (ass.target_link, ass.source_link, 'target', 'source')):
            for x, ys in a.items():
                if id(x) not in live:
                    probs.append('%s %s_link holds deleted instance %s as key' % (ass.rel_id, na, x))
                for y in ys:
                    if id(y) not in live:
                        probs.append('%s: deleted instance %s reachable from %s' % (ass.rel_id, y, x))
                    if y not in b or x not in b[y]:
                        probs.append('%s: %s -> %s on the %s link but not back on the %s link'
                                     % (ass.rel_id, x, y, na, nb))
    return probs


def snapshot(metamodel):
    '''identity-level snapshot of storage, link contents and instance dicts'''
    snap = []
    for k in sorted(metamodel.metaclasses):
        mc = metamodel.metaclasses[k]
        snap.append(('storage', k, tuple(id(i) for i in mc.storage)))
        for inst in mc.storage:
            snap.append(('dict', id(inst), tuple(sorted((a, repr(v)) for a, v in inst.__dict__.items()))))
    for n, ass in enumerate(metamodel.associations):
        for name, link in (('s', ass.source_link), ('t', ass.target_link)):
            snap.append((n, name, tuple(sorted((id(x), tuple(id(y) for y in ys))
                                               for x, ys in link.items() if len(ys)))))
    return snap


TWO_HOP = [0]        # number of two-hop navigations compared (evidence)


class Bound(object):
    '''a shadow together with the real metamodel and the handle <-> instance map'''

    def __init__(self, schema, metamodel):
        self.schema = schema
        self.m = metamodel
        self.shadow = Shadow(schema)
        self.inst = {}                 # handle -> instance (also dead ones)
        self.hid = {}                  # id(instance) -> handle
        # False for loaded models: the order among the links of one instance
        # is then not specified by any property (only the link set is)
        self.ordered_links = True

    def handle_of(self, inst):
        if inst is None:
            return None
        return self.hid.get(id(inst), 'unknown-instance')

    def new(*args, **values):
        self, kind = args
        # attributes called like a parameter of MetaModel.new / MetaClass.new cannot be keywords
        late = dict((a, values[a]) for a in values if a.lower() in ('self', 'kind'))
        inst = self.m.new(kind, **dict((a, v) for a, v in values.items() if a not in late))
        for a, v in late.items():
            setattr(inst, a, v)
        K = kind.upper()
        row = {}
        ref = set(a.upper() for a in self.schema.referential(K))
        for a, ty in self.schema.attrs(K):
            if a.upper() in ref:
                continue
            row[a] = inst.__dict__.get(a)
        for a, v in values.items():
            row[self.shadow.attr_name(K, a)] = v
        h = self.shadow.new(kind, row)
        self.inst[h] = inst
        self.hid[id(inst)] = h
        return h

    def compare(self, queries=True):
        '''-> list of (key, text) differences between library and shadow'''
        import xtuml
        sh, m = self.shadow, self.m
        diffs = []
        for K, ext in sh.extent.items():
            mc = m.find_metaclass(K)
            got = [self.handle_of(i) for i in mc.storage]
            if got != ext:
                diffs.append(('storage', '%s: pool %r, expected %r' % (K, got, ext)))
            if queries:
                got = [self.handle_of(i) for i in m.select_many(K)]
                if got != ext:
                    diffs.append(('select_many', '%s: select_many %r, expected %r' % (K, got, ext)))
        for h, inst in self.inst.items():
            kh = sh.kind[h]
            for i, r in enumerate(self.schema.rops):
                for fwd, frm, to, phrase in ((True, r.src, r.tgt, r.src_phrase),
                                             (False, r.tgt, r.src, r.tgt_phrase)):
                    if frm.upper() != kh:
                        continue
                    exp = sh.navigate(h, to, r.rel, phrase) if sh.alive[h] else []
                    try:
                        got = xtuml.navigate_many(inst).nav(to, r.rel, phrase)()
                        got = [self.handle_of(x) for x in got]
                    except xtuml.MetaException as e:
                        got = 'raised %s' % type(e).__name__
                    if not self.ordered_links and isinstance(got, list):
                        same = sorted(got, key=repr) == sorted(exp, key=repr)
                    else:
                        same = got == exp
                    if not same:
                        diffs.append(('navigate', 'from #%d ->%s[R%d,%r]: %r, expected %r'
                                      % (h, to, r.rel, phrase, got, exp)))
                    one = xtuml.navigate_one(inst).nav(to, r.rel, phrase)()
                    exp1 = exp[0] if exp else None
                    if (self.handle_of(one) != exp1 if self.ordered_links
                            else (self.handle_of(one) in exp) != bool(exp)):
                        diffs.append(('navigate_one', 'from #%d ->%s[R%d,%r]: %r, expected %r'
                                      % (h, to, r.rel, phrase, self.handle_of(one), exp1)))
            # across an association class in one step (two hops through the link instances)
            for r1 in self.schema.rops:
                for r2 in self.schema.rops:
                    if r1 is r2 or r1.rel != r2.rel or r1.src != r2.src or r1.tgt.upper() != kh \
                            or r1.src.upper() == kh or r1.tgt_phrase != r2.src_phrase:
                        continue
                    if any(r.rel == r1.rel and ((r.src.upper() == kh and r.tgt == r2.tgt and r.src_phrase == r1.tgt_phrase) or
                                                (r.tgt.upper() == kh and r.src == r2.tgt and r.tgt_phrase == r1.tgt_phrase))
                           for r in self.schema.rops):
                        continue
                    exp = (sh.navigate(h, r2.tgt, r1.rel, r1.tgt_phrase) or []) if sh.alive[h] else []
                    try:
                        got = [self.handle_of(x) for x in xtuml.navigate_many(inst).nav(r2.tgt, r1.rel, r1.tgt_phrase)()]
                    except xtuml.MetaException as e:
                        got = 'raised %s' % type(e).__name__
                    TWO_HOP[0] += 1
                    if (sorted(got, key=repr) != sorted(exp, key=repr)) if isinstance(got, list) else True:
                        diffs.append(('navigate', 'from #%d across the association class ->%s[R%d,%r]: %r, expected %r'
                                      % (h, r2.tgt, r1.rel, r1.tgt_phrase, got, exp)))
            if not sh.alive[h]:
                continue
            for a, ty in self.schema.attrs(kh):
                want = sh.read(h, a)
                got = getattr(inst, a)
                if got not in want:
                    diffs.append(('attribute-read', '#%d.%s reads %r, expected %s'
                                  % (h, a, got, sorted(want, key=repr))))
        for p in mirror_problems(m):
            diffs.append(('mirror', p))
        return diffs
