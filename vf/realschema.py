'''
The ooaofooa schema shipped in bridgepoint/schema.py (about 400 classes and 650 formalised associations) as a
vf.xmodel.Schema, read with a parser of its own from the schema *text* (never from a loaded metamodel), and random
connected sub-schemas of it.

Used as a source of real-world association shapes: the histories of C02 run on the complete ooaofooa metamodel while
the relational shadow follows the classes of one sub-schema.
'''
import re

from vf.xmodel import Schema, Rop

_TABLE = re.compile(r'CREATE TABLE (\w+) \((.*?)\);', re.S)
_ROP = re.compile(r"CREATE ROP REF_ID R(\d+) FROM (\w+) (\w+) \(([^)]*)\)(?: PHRASE '([^']*)')? "
                  r"TO (\w+) (\w+) \(([^)]*)\)(?: PHRASE '([^']*)')?;")
_INDEX = re.compile(r'CREATE UNIQUE INDEX (\w+) ON (\w+) \(([^)]*)\);')

_CACHE = {}


def full():
    '''-> Schema of the whole ooaofooa'''
    if 'full' in _CACHE:
        return _CACHE['full']
    from bridgepoint import schema as text
    classes = []
    for m in _TABLE.finditer(text.classes):
        attrs = []
        for part in m.group(2).split(','):
            name, ty = part.split()
            attrs.append((name, ty))
        classes.append((m.group(1), attrs))
    rops = []
    n = 0
    for line in text.associations.splitlines():
        if not line.strip():
            continue
        m = _ROP.match(line.strip())
        if m is None:
            raise ValueError('association statement not understood: %r' % line)
        n += 1
        rops.append(Rop(int(m.group(1)), m.group(3), [x.strip() for x in m.group(4).split(',')], m.group(2),
                        m.group(5) or '', m.group(7), [x.strip() for x in m.group(8).split(',')], m.group(6),
                        m.group(9) or ''))
    uniques = [(m.group(2), m.group(1), [x.strip() for x in m.group(3).split(',')])
               for m in _INDEX.finditer(text.indices)]
    s = Schema(classes, rops, uniques)
    _CACHE['full'] = s
    return s


def sub_schema(rng, max_classes=6):
    '''
    A connected part of the ooaofooa: grown from a random association by following associations until *max_classes*
    classes are in; every association whose two classes are in is kept. Associations whose direction the schema does
    not decide for the shadow (a class related to itself without two different phrases) are left out together with
    nothing else: the classes stay.
    '''
    S = full()
    by_kind = {}
    for r in S.rops:
        by_kind.setdefault(r.src, []).append(r)
        by_kind.setdefault(r.tgt, []).append(r)
    first = rng.choice(S.rops)
    kinds = [first.src] + ([first.tgt] if first.tgt != first.src else [])
    # prefer association numbers that involve three classes (linked associations, subtype families)
    for _ in range(40):
        if len(kinds) >= max_classes:
            break
        k = rng.choice(kinds)
        r = rng.choice(by_kind[k])
        for other in (r.src, r.tgt):
            if other not in kinds and len(kinds) < max_classes:
                kinds.append(other)
        # the other formalisations of the same association number come along
        for r2 in S.rops:
            if r2.rel == r.rel:
                for other in (r2.src, r2.tgt):
                    if other not in kinds and len(kinds) < max_classes + 2:
                        kinds.append(other)
    # left out: a class related to itself without two different phrases, and a reflexive association one of whose
    # identifying attributes is at the same time one of its own referential attributes (R661: Block_ID refers to
    # Block_ID) - on a ring of such links the attribute has no defined value at all (the library recurses without end
    # when it is read; noted in DESIGN, outside what C02 states)
    rops = [r for r in S.rops if r.src in kinds and r.tgt in kinds
            and not (r.src == r.tgt and (r.src_phrase == r.tgt_phrase or set(r.src_keys) & set(r.tgt_keys)))]
    classes = [(k, at) for k, at in S.classes if k in kinds]
    uniques = [u for u in S.uniques if u[0] in kinds]
    sub = Schema(classes, rops, uniques)
    # attributes that are referential through associations outside the part: never linked there, so they read as unset
    inside = set((r.src, a) for r in rops for a in r.src_keys)
    sub.external_refs = set((r.src.upper(), a.upper()) for r in S.rops for a in r.src_keys
                            if r.src in kinds and r not in rops) - set((k.upper(), a.upper()) for k, a in inside)
    return sub
