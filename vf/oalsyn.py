'''
Syntactic OAL generators on top of vf.oalmodel: exhaustive expression trees
up to a depth, random expression trees, and random statements covering every
statement production of the grammar (no name resolution or typing - these
programs are only parsed).
'''
import itertools

from vf import oalmodel as om

VARS = ['x', 'y', 'inst', 'my_var', 'a1', '_tmp', 'Count', 'v']
SETS = ['items', 'set1', 'objs']
KEYLETT = ['A', 'B', 'Cls', 'O_OBJ', 'k1']
RELS = ['R1', 'R22', 'R103']
ATTRS = ['Name', 'id', 'count', 'Is_Ok', 'x']
PHRASES = ['precedes', 'is parent of', 'one', 'has', 'succeeds']
FUNCS = ['f', 'compute', 'do_it']
NAMESPACES = ['LOG', 'ARCH', 'Cls', 'A', 'port1']
PNAMES = ['p', 'value', 'msg', 'n']


def atoms(kinds):
    out = []
    for k in kinds:
        if k == 'var':
            out.append(lambda: om.var('x'))
        elif k == 'int':
            out.append(lambda: om.integer(7))
        elif k == 'field':
            out.append(lambda: om.field(om.var('inst'), 'Name'))
        elif k == 'call':
            out.append(lambda: om.fcall('f', [('p', om.integer(1))]))
        elif k == 'str':
            out.append(lambda: om.string('s'))
    return out


def trees(depth, atom_makers, unary_ops, binary_ops):
    '''all expression trees up to *depth* as thunks (each call builds fresh nodes)'''
    if depth == 1:
        return list(atom_makers)
    sub = trees(depth - 1, atom_makers, unary_ops, binary_ops)
    out = list(atom_makers)
    for op in unary_ops:
        for s in sub:
            out.append(lambda op=op, s=s: om.unary(op, s()))
    for op in binary_ops:
        for l in sub:
            for r in sub:
                out.append(lambda op=op, l=l, r=r: om.binary(op, l(), r()))
    return out


def count_trees(depth, a, u, b):
    t = a
    for _ in range(depth - 1):
        t = a + u * t + b * t * t
    return t


class Gen(object):
    def __init__(self, rng):
        self.rng = rng

    # -- expressions -----------------------------------------------------------
    def atom(self, depth=2):
        r = self.rng
        k = r.random()
        if k < 0.22:
            return om.var(r.choice(VARS))
        if k < 0.36:
            return om.integer(r.choice((0, 1, 7, 42, 1000000)))
        if k < 0.42:
            return om.real(r.choice(('1.5', '0.25', '10.0', '3.14159', '1.5f', '2.0L', '3e2F', '.5', '2.', '1e5', '2.e3', '7.25l')))
        if k < 0.50:
            # (a string holds anything but a double quote and a line break; the language has no escape sequences,
            # so a backslash is a character like any other - also as the last one)
            return om.string(r.choice(('', 'abc', 'a b', '// no comment', '/* nor this */', "it's", 'end if;',
                                       'C:\\tmp\\', '\\', 'a\\"b'.replace('"', ''), '\\n', 'tab\there', '100%', '\u00e5\u00e4\u00f6',
                                       # characters that end a line by other conventions (a string ends at a line feed only)
                                       'a\x0cb', 'l\u2028s', 'n\x85l', 'v\x0bt', 'f\x1cs\x1d\x1e', 'p\u2029', 'cr\rhere')))
        if k < 0.56:
            return om.boolean(r.random() < 0.5)
        if k < 0.66:
            h = r.choice((om.var(r.choice(VARS)), om.self_(), om.selected(), om.param(r.choice(PNAMES))))
            f = om.field(h, r.choice(ATTRS))
            if r.random() < 0.15:
                f = om.field(f, r.choice(ATTRS))
            return f
        if k < 0.71:
            return om.param(r.choice(PNAMES), r.choice(('param', 'param', 'rcvd_evt')))
        if k < 0.75:
            return om.self_()
        if k < 0.78:
            return om.selected()
        if k < 0.83:
            return om.enum(r.choice(NAMESPACES), r.choice(ATTRS))
        if k < 0.88 and depth > 0:
            h = om.var(r.choice(VARS))
            return om.index(h, self.expr(depth - 1))
        if depth > 0:
            return self.invocation(depth - 1)
        return om.var(r.choice(VARS))

    def plist(self, depth):
        r = self.rng
        return [(r.choice(PNAMES), self.expr(depth)) for _ in range(r.choice((0, 1, 1, 2, 3)))]

    def invocation(self, depth, kinds=('f', 'implicit', 'inst')):
        r = self.rng
        k = r.choice(kinds)
        if k == 'f':
            return om.fcall(r.choice(FUNCS), self.plist(depth))
        if k == 'implicit':
            return om.implicit_call(r.choice(NAMESPACES), r.choice(FUNCS), self.plist(depth))
        return om.icall(r.choice((om.var(r.choice(VARS)), om.self_())), r.choice(FUNCS), self.plist(depth))

    def expr(self, depth):
        r = self.rng
        if depth <= 0 or r.random() < 0.25:
            return self.atom(depth)
        if r.random() < 0.25:
            return om.unary(r.choice(om.UNARY_OPS), self.expr(depth - 1))
        return om.binary(r.choice(om.BINARY_OPS), self.expr(depth - 1), self.expr(depth - 1))

    def target(self, depth=1):
        r = self.rng
        k = r.random()
        if k < 0.5:
            return om.var(r.choice(VARS))
        if k < 0.8:
            return om.field(r.choice((om.var(r.choice(VARS)), om.self_())), r.choice(ATTRS))
        if k < 0.9:
            return om.index(om.var(r.choice(VARS)), self.expr(depth))
        return om.param(r.choice(PNAMES))

    # -- statements --------------------------------------------------------------
    def phrase(self):
        r = self.rng
        p = r.choice(PHRASES)
        ticked = (' ' in p) or r.random() < 0.6
        if r.random() < 0.1:
            # a ticked phrase holds anything but a tick
            p = p + r.choice(('\x0c', '\u2028x', '\x85', '\x0b', ' \x1c', '\u2029', '\nnext line', '\rcr'))
            ticked = True
        return p, ticked

    def inst_name(self):
        r = self.rng
        return 'self' if r.random() < 0.15 else r.choice(VARS)

    def event_spec(self, depth):
        r = self.rng
        meaning, ticked = (None, True)
        if r.random() < 0.5:
            meaning, ticked = self.phrase()
        data = None
        if r.random() < 0.7:
            data = [(r.choice(PNAMES), self.expr(depth)) for _ in range(r.choice((0, 1, 2)))]
        return om.event_spec(r.choice(('A1', 'Cls3', 'E_4')), meaning, data,
                             polymorphic=r.random() < 0.2, ticked=ticked)

    def statement(self, depth, in_loop=False):
        r = self.rng
        k = r.randrange(30)
        ed = 2 if depth > 0 else 1
        if k < 4:
            return om.assign(self.target(), self.expr(ed + 1))
        if k == 4:
            return om.invoke(self.invocation(ed))
        if k == 5:
            inv = om.implicit_call(r.choice(NAMESPACES), r.choice(FUNCS), self.plist(ed),
                                   cls='BridgeInvocationNode')
            return om.assign(self.target(), inv, prefix='bridge') if r.random() < 0.5 else om.invoke(inv, 'bridge')
        if k == 6:
            if r.random() < 0.5:
                inv = om.implicit_call(r.choice(NAMESPACES), r.choice(FUNCS), self.plist(ed),
                                       cls='ClassInvocationNode')
            else:
                inv = om.icall(r.choice((om.var(r.choice(VARS)), om.self_())), r.choice(FUNCS), self.plist(ed))
            return om.assign(self.target(), inv, prefix='transform') if r.random() < 0.5 else om.invoke(inv, 'transform')
        if k == 7:
            inv = om.implicit_call(r.choice(NAMESPACES), r.choice(FUNCS), self.plist(ed),
                                   cls='PortInvocationNode')
            return om.assign(self.target(), inv, prefix='send') if r.random() < 0.5 else om.invoke(inv, 'send')
        if k == 8:
            return om.send_event(r.choice(NAMESPACES), r.choice(FUNCS), self.plist(ed), self.expr(1))
        if k == 9:
            kind = r.choice(('class', 'assigner', 'creator', 'instance'))
            tgt = r.choice((om.var(r.choice(VARS)), om.self_(), om.field(om.var('x'), 'y'))) \
                if kind == 'instance' else r.choice(KEYLETT)
            return om.generate_to(self.event_spec(ed), tgt, kind)
        if k == 10:
            kind = r.choice(('class', 'assigner', 'creator', 'instance'))
            tgt = r.choice((om.var(r.choice(VARS)), om.self_())) if kind == 'instance' else r.choice(KEYLETT)
            return om.create_event(r.choice(VARS), self.event_spec(ed), tgt, kind)
        if k == 11:
            return om.generate_preexisting(self.target())
        if k == 12:
            return om.create(r.choice(VARS) if r.random() < 0.8 else None, r.choice(KEYLETT))
        if k == 13:
            return om.delete(self.inst_name())
        if k in (14, 15):
            ph, ticked = (None, True) if r.random() < 0.5 else self.phrase()
            using = self.inst_name() if r.random() < 0.4 else None
            return om.relate(self.inst_name(), self.inst_name(), r.choice(RELS), ph, using,
                             un=(k == 15), ticked=ticked)
        if k in (16, 17):
            where = self.expr(ed + 1) if r.random() < 0.5 else None
            return om.select_from(r.choice(('any', 'many')), r.choice(VARS + SETS), r.choice(KEYLETT), where)
        if k in (18, 19):
            steps = []
            for _ in range(r.choice((1, 1, 2, 3))):
                ph, ticked = (None, True) if r.random() < 0.6 else self.phrase()
                steps.append(om.nav_step(r.choice(KEYLETT), r.choice(RELS), ph, ticked))
            handle = r.choice((om.var(r.choice(VARS)), om.self_(), om.field(om.var('x'), 'y'),
                               om.param(r.choice(PNAMES))))
            where = self.expr(ed + 1) if r.random() < 0.4 else None
            return om.select_related(r.choice(('one', 'any', 'many')), r.choice(VARS + SETS), handle, steps, where)
        if k == 20:
            return om.return_(self.expr(ed + 1) if r.random() < 0.7 else None)
        if k == 21:
            return om.control_stop()
        if k == 22 and in_loop:
            return om.break_() if r.random() < 0.5 else om.continue_()
        if depth > 0:
            if k in (23, 24, 25, 22):
                elifs = [(self.expr(ed), self.block(depth - 1, in_loop)) for _ in range(r.choice((0, 0, 1, 2)))]
                else_ = self.block(depth - 1, in_loop) if r.random() < 0.5 else None
                return om.if_(self.expr(ed + 1), self.block(depth - 1, in_loop), elifs, else_)
            if k in (26, 27):
                return om.while_(self.expr(ed + 1), self.block(depth - 1, True))
            return om.for_each(r.choice(VARS), r.choice(SETS), self.block(depth - 1, True))
        return om.assign(self.target(), self.expr(ed))

    def block(self, depth, in_loop=False):
        return [self.statement(depth, in_loop) for _ in range(self.rng.choice((0, 1, 1, 2, 3)))]

    def program(self, depth=2, nstmts=None):
        n = nstmts or self.rng.randint(1, 6)
        return om.body([self.statement(depth) for _ in range(n)])
