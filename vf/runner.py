'''
Parent process of a check: scratch build, sharding over child processes,
merging, verdict (violated / held / inconclusive), known-finding matching,
evidence and replay files.
'''
import argparse
import concurrent.futures
import importlib
import json
import os
import subprocess
import sys
import tempfile
import time

HERE = os.path.dirname(os.path.dirname(os.path.abspath(__file__)))
DEPS = os.path.join(HERE, '.deps')
WHEELS = '/opt/veriftools/wheels'


def ensure_deps():
    if os.path.isdir(os.path.join(DEPS, 'icontract')):
        return
    subprocess.run([sys.executable, '-m', 'pip', 'install', '-q', '--no-index',
                    '--find-links', WHEELS, '--target', DEPS, 'icontract'],
                   stdout=subprocess.DEVNULL, stderr=subprocess.DEVNULL)


def load_known(prop):
    path = os.path.join(HERE, 'known_findings.json')
    try:
        entries = json.load(open(path))['findings']
    except (IOError, ValueError, KeyError):
        return []
    return [e for e in entries if e.get('property') == prop]


def run_shard(args, timeout):
    cmd = [sys.executable, '-m', 'vf.worker', json.dumps(args)]
    env = dict(os.environ)
    env['PYTHONHASHSEED'] = '0'
    env['PYTHONPATH'] = HERE
    env['PYTHONDONTWRITEBYTECODE'] = '1'
    try:
        p = subprocess.run(cmd, cwd=HERE, env=env, timeout=timeout,
                           capture_output=True, text=True)
    except subprocess.TimeoutExpired:
        return dict(status='timeout', error='wall-clock watchdog (%ds)' % timeout)
    try:
        res = json.load(open(args['out']))
    except (IOError, ValueError):
        if p.returncode == -26:
            # SIGVTALRM: a guarded case exhausted its CPU budget (ctx.guard)
            try:
                cur = json.load(open(args['params']['__current__']))
            except (IOError, ValueError, KeyError):
                cur = dict(key='cpu-budget/unknown', case=None)
            return dict(status='ok', violations=[dict(
                key=cur['key'], shard=args['shard'], case=cur.get('case'),
                what='CPU budget of %s s exhausted (process terminated by the budget timer)'
                     % cur.get('budget_cpu_s'))], died=True)
        return dict(status='error', error='no result; rc=%s\n%s\n%s'
                    % (p.returncode, p.stdout[-2000:], p.stderr[-4000:]))
    res['stderr'] = p.stderr[-2000:]
    return res


def main(argv=None):
    ap = argparse.ArgumentParser()
    ap.add_argument('check')
    ap.add_argument('--tier', default=os.environ.get('VERIF_TIER') or 'quick')
    ap.add_argument('--replay', default=None)
    ap.add_argument('--jobs', type=int, default=int(os.environ.get('VERIF_JOBS', '16')))
    ap.add_argument('--no-evidence', action='store_true')
    opts = ap.parse_args(argv)
    cid = opts.check.upper()
    tier = opts.tier if opts.tier in ('quick', 'thorough') else 'quick'
    try:
        seed = int(os.environ.get('VERIF_SEED', '0') or 0)
    except ValueError:
        seed = 0
    t0 = time.time()
    ensure_deps()
    sys.path.insert(0, HERE)
    mod = importlib.import_module('vf.checks.' + cid.lower())
    from vf import build
    try:
        root = build.make_scratch()
    except Exception as e:
        print('INCONCLUSIVE property=%s build failed: %s' % (cid, e))
        return 2
    tmp = tempfile.mkdtemp(prefix='pyxtuml-verif-out-')

    def terminated(signum, frame):
        # remove the scratch copies and leave at once; the workers die with the runner (PR_SET_PDEATHSIG)
        import shutil
        build.remove(root)
        shutil.rmtree(tmp, ignore_errors=True)
        os._exit(2)
    import signal
    for sg in (signal.SIGTERM, signal.SIGHUP):
        signal.signal(sg, terminated)
    try:
        return _run(mod, cid, tier, seed, root, tmp, opts, t0)
    finally:
        build.remove(root)
        import shutil
        shutil.rmtree(tmp, ignore_errors=True)


LINES = set()


def _run(mod, cid, tier, seed, root, tmp, opts, t0):
    params = {}
    nshards = mod.SHARDS[tier]
    if opts.replay:
        params['replay'] = json.load(open(opts.replay))
        nshards = 1
        if not getattr(mod, 'SUPPORTS_REPLAY', False):
            # the replay file is self-contained: it holds the witness (input / history / program,
            # expected and observed); checks without a re-execution hook show it
            r = params['replay']
            print('replay of %s (key %s, seed %s, tier %s): re-run  VERIF_SEED=%s ./vcheck %s --tier %s  to '
                  'reproduce; recorded witness:' % (cid, r.get('key'), r.get('seed'), r.get('tier'),
                                                    r.get('seed'), cid, r.get('tier')))
            print(r.get('what'))
            return 0
    timeout = getattr(mod, 'TIMEOUT', {'quick': 900, 'thorough': 7200})[tier]
    jobs = []
    for s in range(nshards):
        jobs.append(dict(check=cid, tier=tier, seed=seed, shard=s,
                         nshards=nshards, root=root,
                         params=dict(params, __current__=os.path.join(tmp, 'current%d.json' % s)),
                         out=os.path.join(tmp, 'shard%d.json' % s)))
    with concurrent.futures.ThreadPoolExecutor(max_workers=opts.jobs) as ex:
        results = list(ex.map(lambda a: run_shard(a, timeout), jobs))

    counters, monitors, exhaustive, notes = {}, {}, {}, {}
    distinct, samples, violations, reached = set(), [], [], set()
    vcounts = {}
    evaluations = 0
    distinct_enum = 0
    problems = []
    for i, r in enumerate(results):
        if r.get('status') != 'ok':
            problems.append('shard %d: %s: %s' % (i, r.get('status'), r.get('error')))
        for k, v in (r.get('counters') or {}).items():
            counters[k] = counters.get(k, 0) + v
        for k, v in (r.get('monitors') or {}).items():
            monitors[k] = monitors.get(k, 0) + v
        for k, v in (r.get('exhaustive') or {}).items():
            if k in exhaustive:
                exhaustive[k]['cases'] += v['cases']
            else:
                exhaustive[k] = dict(v)
        notes.update(r.get('notes') or {})
        evaluations += r.get('evaluations', 0)
        distinct.update(r.get('distinct') or [])
        distinct_enum += r.get('distinct_enum', 0)
        for s in (r.get('samples') or []):
            if len(samples) < 8:
                samples.append(s)
        violations.extend(r.get('violations') or [])
        for k, v in (r.get('violation_counts') or {}).items():
            vcounts[k] = vcounts.get(k, 0) + v
        reached.update(r.get('reached') or [])
        for fl in (r.get('lines') or []):
            LINES.add(tuple(fl))

    known = load_known(cid)
    known_keys = {e['key']: e for e in known if e.get('status') == 'known'}
    real, seen_known = [], {}
    for v in violations:
        if v['key'] in known_keys:
            seen_known.setdefault(v['key'], []).append(v)
        else:
            real.append(v)

    # -- verdict -----------------------------------------------------------
    inconclusive = list(problems)
    if not opts.replay:
        for m in getattr(mod, 'MUST_HIT', []):
            if not monitors.get(m):
                inconclusive.append('deciding monitor %s was never evaluated' % m)
        for f in getattr(mod, 'MUST_REACH', []):
            if f not in reached:
                inconclusive.append('anchor %s was never executed' % f)
        minimum = getattr(mod, 'MIN_NONTRIVIAL', {'quick': 2, 'thorough': 2})[tier]
        ndistinct = len(distinct) + distinct_enum
        if ndistinct < minimum:
            inconclusive.append('only %d distinct non-trivial cases (< %d)'
                                % (ndistinct, minimum))

    for key, vs in sorted(seen_known.items()):
        print('KNOWN-FINDING: property=%s %s [%s; seen %d time(s) this run]'
              % (cid, known_keys[key]['what'], key, vcounts.get(key, len(vs))))

    rc = 0
    replay_dir = os.path.join(HERE, 'replays')
    if os.path.isdir(replay_dir) and not opts.replay:
        for fn in os.listdir(replay_dir):
            if fn.startswith('%s-seed%d-%s-' % (cid, seed, tier)):
                os.remove(os.path.join(replay_dir, fn))
    if real:
        rc = 1
        os.makedirs(replay_dir, exist_ok=True)
        shown = set()
        for n, v in enumerate(real):
            path = os.path.join(replay_dir, '%s-seed%d-%s-%d.json'
                                % (cid, seed, tier, n))
            with open(path, 'w') as f:
                json.dump(dict(property=cid, seed=seed, tier=tier, **v), f, indent=1)
            if v['key'] not in shown and len(shown) < 12:
                print('VIOLATION property=%s replay=%s key=%s :: %s'
                      % (cid, path, v['key'], str(v['what'])[:300]))
            shown.add(v['key'])
    elif inconclusive:
        rc = 2
        for msg in inconclusive[:10]:
            print('INCONCLUSIVE property=%s %s' % (cid, str(msg)[:1500]))

    wall = time.time() - t0
    anchors = getattr(mod, 'ANCHORS', [])
    anchors_reached = {a: (a in reached) for a in anchors}
    if LINES:
        os.makedirs(os.path.join(HERE, 'replays'), exist_ok=True)
        with open(os.path.join(HERE, 'replays', 'linecov-%s-%s.json' % (cid, tier)), 'w') as f:
            json.dump(sorted(LINES), f)
    evidence = dict(
        property_id=cid, tier=tier, seed=seed, level='exploration',
        coverage=dict(
            evaluations=evaluations,
            distinct_nontrivial=len(distinct) + distinct_enum,
            rule=mod.RULE,
            samples=samples,
            exhaustive=bool(exhaustive) and getattr(mod, 'ALL_EXHAUSTIVE', False),
            exhaustive_subspaces=exhaustive,
            events=counters,
            monitor_evaluations=monitors,
            anchors_reached=anchors_reached,
            repo_functions_executed=len(reached),
            known_findings_seen={k: vcounts.get(k, len(v)) for k, v in seen_known.items()},
            shards=len(results),
            verdict={0: 'held on what was observed', 1: 'violated',
                     2: 'inconclusive'}[rc],
            inconclusive_reasons=inconclusive[:10],
            notes=notes,
        ),
        assumptions=getattr(mod, 'ASSUMPTIONS', []),
        wall_s=round(wall, 2),
        violations=len(real),
    )
    if not opts.no_evidence and not opts.replay:
        os.makedirs(os.path.join(HERE, 'evidence'), exist_ok=True)
        with open(os.path.join(HERE, 'evidence', cid + '.json'), 'w') as f:
            json.dump(evidence, f, indent=1, sort_keys=True)
    print('%s tier=%s seed=%d: %s; evaluations=%d distinct_nontrivial=%d '
          'violations=%d known=%d wall=%.1fs'
          % (cid, tier, seed, evidence['coverage']['verdict'], evaluations,
             len(distinct) + distinct_enum, len(real), sum(vcounts.get(k, len(v)) for k, v in seen_known.items()),
             wall))
    return rc


if __name__ == '__main__':
    sys.exit(main())
