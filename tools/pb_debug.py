'''debug helper: prebuild the program text of a C05/C06/C08 replay in a scratch build and report consistency problems'''
import json, sys, logging
sys.path.insert(0, '/verif')
from vf import build
root = build.make_scratch()
build.activate(root)
try:
    logging.basicConfig(level=logging.WARNING)
    from vf import pbgen
    from vf.checks import c05
    import xtuml
    from xtuml import consistency_check as cc
    from bridgepoint import prebuild, sourcegen
    d = json.load(open(sys.argv[1]))
    home = sys.argv[2]
    what = d['what']
    text = what.split('\n', 1)[1] if len(sys.argv) < 4 else open(sys.argv[3]).read()
    m = c05.fresh_model()
    inst = pbgen.home_instance(m, home)
    inst.Action_Semantics_internal = text
    inst.Suc_Pars = 1
    print('before', cc.check_uniqueness_constraint(m), cc.check_association_integrity(m))
    prebuild.prebuild_action(inst)
    print('after', cc.check_uniqueness_constraint(m), cc.check_association_integrity(m))
    print(sourcegen.gen_text_action(inst))
    for mc in m.metaclasses.values():
        for name, attrs in mc.indices.items():
            seen = {}
            for i in mc.storage:
                key = tuple(getattr(i, a) for a in attrs)
                if any(k is None or k == 0 for k in key) or key in seen:
                    print('IDENTIFIER', mc.kind, name, attrs, key, i)
                seen[key] = i

finally:
    build.remove(root)
