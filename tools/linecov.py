#!/usr/bin/env python3
'''
Which lines of the anchored files does a check's workload never execute?
  tools/linecov.py C06 [quick|thorough] [file filter ...]
Runs the check with VERIF_LINECOV=1 (sys.monitoring LINE events, each line reported once) and lists the
executable lines of the property's anchor files that no shard executed, grouped by function.
'''
import json, os, subprocess, sys, types

cid = sys.argv[1].upper()
tier = sys.argv[2] if len(sys.argv) > 2 and sys.argv[2] in ('quick', 'thorough') else 'quick'
filters = [a for a in sys.argv[2:] if a not in ('quick', 'thorough')]
env = dict(os.environ, VERIF_LINECOV='1')
p = subprocess.run(['/verif/vcheck', cid, '--tier', tier, '--no-evidence'], env=env, capture_output=True, text=True)
print(p.stdout.strip().splitlines()[-1][:200])
cov = set(map(tuple, json.load(open('/verif/replays/linecov-%s-%s.json' % (cid, tier)))))
props = dict((json.loads(l)['id'], json.loads(l)) for l in open('/verif/properties.jsonl'))
files = filters or props[cid]['anchors']['files']
repo = os.environ.get('VERIF_REPO', '/repo')


def code_lines(code, qual, out):
    if code.co_flags & 0x1 or qual == '<module>':     # functions only: class bodies run at import time
        for _, _, line in code.co_lines():
            if line is not None:
                out.setdefault(line, qual)
    for c in code.co_consts:
        if isinstance(c, types.CodeType):
            code_lines(c, c.co_qualname, out)


for f in files:
    src = open(os.path.join(repo, f)).read()
    lines = {}
    code_lines(compile(src, f, 'exec'), '<module>', lines)
    text = src.splitlines()
    missing = {}
    hit = 0
    for ln, qual in sorted(lines.items()):
        if (f, ln) in cov:
            hit += 1
        elif qual != '<module>' and not text[ln - 1].strip().startswith(("'''", '"""', 'def ', 'class ', '@')):
            missing.setdefault(qual, []).append(ln)
    print('== %s: %d of %d executable lines executed' % (f, hit, len(lines)))
    for qual, lns in missing.items():
        print('  %s' % qual)
        for ln in lns:
            print('     %5d  %s' % (ln, text[ln - 1].rstrip()[:110]))
