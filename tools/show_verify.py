import json, sys
for name in sys.argv[1:]:
    d = json.load(open('/tmp/seed/%s/verify.json' % name))
    print(name, d['suite_with_change'], 'demo', d['demo_exit_with_change'], d['demo_exit_without_change'])
    for c, ch in d['checks'].items():
        print('   ', c, 'exit', ch['exit'], [v.split('key=')[1][:140] for v in ch['violations'][:3]])
