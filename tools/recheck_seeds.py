#!/usr/bin/env python3
'''
Regression of the checks against the kept seeded changes: every seeded/<name>/patch.diff is applied to a
scratch worktree of /repo's HEAD and its property's quick check is run on it (VERIF_REPO); the check must
exit 1 with a VIOLATION line.
Usage: recheck_seeds.py [-j N] [C01 C05 ...]      (no properties: all)
Prints one line per seed and a summary; exit 1 when a seed is no longer reported.
'''
import concurrent.futures
import glob
import json
import os
import subprocess
import sys

args = sys.argv[1:]
jobs = 3
if args[:1] == ['-j']:
    jobs = int(args[1])
    args = args[2:]
only = set(args)


def one(d):
    name = os.path.basename(d)
    meta = json.load(open(os.path.join(d, 'meta.json')))
    pid = meta['property']
    wt = '/tmp/seedre-%s' % name
    subprocess.run(['git', '-C', '/repo', 'worktree', 'remove', '--force', wt], capture_output=True)
    subprocess.check_call(['git', '-C', '/repo', 'worktree', 'add', '-q', '--detach', wt, 'HEAD'])
    try:
        p = subprocess.run(['git', '-C', wt, 'apply', os.path.join(d, 'patch.diff')], capture_output=True, text=True)
        if p.returncode:
            return name, 'patch does not apply', ''
        c = subprocess.run(['/verif/vcheck', pid, '--no-evidence'], env=dict(os.environ, VERIF_REPO=wt),
                           capture_output=True, text=True)
        v = [l for l in c.stdout.splitlines() if l.startswith('VIOLATION')]
        if c.returncode == 1 and v:
            return name, 'caught', v[0][:160]
        return name, 'MISSED (exit %d)' % c.returncode, (c.stdout.strip().splitlines() or [c.stderr[-300:]])[-1][:300]
    finally:
        subprocess.run(['git', '-C', '/repo', 'worktree', 'remove', '--force', wt], capture_output=True)


dirs = [d for d in sorted(glob.glob('/verif/seeded/*')) if os.path.exists(os.path.join(d, 'meta.json'))
        and (not only or os.path.basename(d).split('-')[0] in only)]
missed = 0
with concurrent.futures.ThreadPoolExecutor(jobs) as ex:
    for name, verdict, first in ex.map(one, dirs):
        print('%-70s %s%s' % (name, verdict, '' if verdict == 'caught' else '   ' + first), flush=True)
        if verdict != 'caught':
            missed += 1
subprocess.run(['git', '-C', '/repo', 'worktree', 'prune'])
print('%d seeded changes, %d not reported' % (len(dirs), missed))
sys.exit(1 if missed else 0)
