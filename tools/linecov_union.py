#!/usr/bin/env python3
'''union of replays/linecov-*.json: lines of the library no check executed (run the checks with VERIF_LINECOV=1 first)'''
import glob, json, os, sys, types
cov = set()
for f in glob.glob('/verif/replays/linecov-*-quick.json'):
    cov |= set(map(tuple, json.load(open(f))))
repo = '/repo'
files = sys.argv[1:] or ['xtuml/meta.py', 'xtuml/load.py', 'xtuml/persist.py', 'xtuml/tools.py', 'xtuml/consistency_check.py',
                         'bridgepoint/oal.py', 'bridgepoint/interpret.py', 'bridgepoint/prebuild.py', 'bridgepoint/sourcegen.py',
                         'bridgepoint/ooaofooa.py', 'bridgepoint/gen_xsd_schema.py', 'bridgepoint/gen_sql_schema.py',
                         'bridgepoint/consistency_check.py', 'bridgepoint/external_entities.py']
def code_lines(code, qual, out):
    if code.co_flags & 0x1:
        for _, _, line in code.co_lines():
            if line is not None:
                out.setdefault(line, qual)
    for c in code.co_consts:
        if isinstance(c, types.CodeType):
            code_lines(c, c.co_qualname, out)
for f in files:
    src = open(os.path.join(repo, f)).read()
    lines = {}
    code_lines(compile(src, f, 'exec'), '<module>', lines)
    text = src.splitlines()
    missing = {}
    hit = 0
    for ln, qual in sorted(lines.items()):
        if (f, ln) in cov:
            hit += 1
        elif not text[ln - 1].strip().startswith(("'''", '"""', 'def ', 'class ', '@')):
            missing.setdefault(qual, []).append(ln)
    print('== %s: %d of %d function lines executed by some check' % (f, hit, len(lines)))
    for qual, lns in missing.items():
        print('  %s: %s' % (qual, ' '.join(map(str, lns))))
