#!/usr/bin/env python3
'''
Systematic (not hand-picked) mutations of the anchored code of each property.

For a property the anchored line ranges of properties.jsonl are read, the files are parsed with `ast`, and every
site of a small operator set inside those ranges becomes one mutant (spliced into the source text at the node's
own columns, so the rest of the file - PLY docstrings, rule order - stays byte-identical):

  cmp      ==/!=  </<=  >/>=  is/is not  in/not in        (one comparison operator flipped)
  bool     and <-> or
  not      not X  ->  X
  const    True <-> False, integer n -> n + 1
  arith    + <-> -
  del      an expression statement / assignment / augmented assignment / break / continue -> pass
  ret      return X -> return None
  ifneg    if C: -> if not (C):

A sample of the sites (seeded) is applied one at a time to a scratch copy; the property's quick check runs on it
through VERIF_REPO. A mutant the check does not report is then run against the repository's own test suite; one
that passes both is a *survivor* and is printed with its diff for reading: it is either equivalent with respect
to the property or a gap in the workload.

  automutate.py [-n PER_PROPERTY] [-s SEED] [-o OUT.json] [C01 C17 ...]
'''
import ast
import json
import os
import random
import re
import shutil
import subprocess
import sys
import tempfile

HERE = os.path.dirname(os.path.dirname(os.path.abspath(__file__)))
REPO = os.environ.get('AUTOMUTATE_REPO', '/repo')

CMP = {ast.Eq: '!=', ast.NotEq: '==', ast.Lt: '<=', ast.LtE: '<', ast.Gt: '>=', ast.GtE: '>',
       ast.Is: 'is not', ast.IsNot: 'is', ast.In: 'not in', ast.NotIn: 'in'}
CMPTXT = {ast.Eq: '==', ast.NotEq: '!=', ast.Lt: '<', ast.LtE: '<=', ast.Gt: '>', ast.GtE: '>=',
          ast.Is: 'is', ast.IsNot: 'is not', ast.In: 'in', ast.NotIn: 'not in'}


def ranges_of(prop):
    out = {}
    for m in prop['anchors'].get('mechanism', []):
        for part in m['where'].split(';'):
            part = part.strip()
            mm = re.match(r'^(\S+\.py):(.*)$', part)
            if not mm:
                continue
            f = mm.group(1)
            for r in mm.group(2).split(','):
                r = r.strip()
                m2 = re.match(r'^(\d+)-(\d+)$', r)
                if m2:
                    out.setdefault(f, []).append((int(m2.group(1)), int(m2.group(2))))
    return out


class Src:
    def __init__(self, text):
        self.text = text
        self.lines = text.split('\n')
        self.offs = [0]
        for l in self.lines:
            self.offs.append(self.offs[-1] + len(l.encode('utf8')) + 1)
        self.bytes = text.encode('utf8')

    def pos(self, line, col):
        return self.offs[line - 1] + col

    def seg(self, node):
        return self.pos(node.lineno, node.col_offset), self.pos(node.end_lineno, node.end_col_offset)

    def splice(self, a, b, new):
        return (self.bytes[:a] + new.encode('utf8') + self.bytes[b:]).decode('utf8')

    def get(self, a, b):
        return self.bytes[a:b].decode('utf8')


def sites(text, ranges):
    '''yield (kind, line, a, b, replacement)'''
    src = Src(text)
    tree = ast.parse(text)

    def inside(n):
        return any(a <= n.lineno <= b for a, b in ranges)

    def is_doc(stmt, parent):
        body = getattr(parent, 'body', None)
        return (isinstance(stmt, ast.Expr) and isinstance(stmt.value, ast.Constant) and isinstance(stmt.value.value, str)
                and body and body[0] is stmt)

    parents = {}
    for p in ast.walk(tree):
        for c in ast.iter_child_nodes(p):
            parents[c] = p

    for n in ast.walk(tree):
        if not hasattr(n, 'lineno') or not inside(n):
            continue
        if isinstance(n, ast.Compare) and len(n.ops) == 1 and type(n.ops[0]) in CMP:
            a = src.seg(n.left)[1]
            b = src.seg(n.comparators[0])[0]
            mid = src.get(a, b)
            old = CMPTXT[type(n.ops[0])]
            if re.sub(r'\s+', ' ', mid.strip()) == old:
                yield 'cmp', n.lineno, a, b, ' %s ' % CMP[type(n.ops[0])]
        elif isinstance(n, ast.BoolOp) and len(n.values) == 2:
            a = src.seg(n.values[0])[1]
            b = src.seg(n.values[1])[0]
            mid = src.get(a, b)
            old = 'and' if isinstance(n.op, ast.And) else 'or'
            if mid.strip().strip('()\\').strip() == old and '(' not in mid and ')' not in mid:
                yield 'bool', n.lineno, a, b, mid.replace(old, 'or' if old == 'and' else 'and')
        elif isinstance(n, ast.UnaryOp) and isinstance(n.op, ast.Not):
            a, b = src.seg(n)
            oa, ob = src.seg(n.operand)
            yield 'not', n.lineno, a, b, '(' + src.get(oa, ob) + ')'
        elif isinstance(n, ast.Constant) and n.value is True:
            a, b = src.seg(n)
            yield 'const', n.lineno, a, b, 'False'
        elif isinstance(n, ast.Constant) and n.value is False:
            a, b = src.seg(n)
            yield 'const', n.lineno, a, b, 'True'
        elif isinstance(n, ast.Constant) and type(n.value) is int and n.value < 1000:
            a, b = src.seg(n)
            yield 'const', n.lineno, a, b, str(n.value + 1)
        elif isinstance(n, ast.BinOp) and isinstance(n.op, (ast.Add, ast.Sub)):
            a = src.seg(n.left)[1]
            b = src.seg(n.right)[0]
            mid = src.get(a, b)
            old = '+' if isinstance(n.op, ast.Add) else '-'
            if mid.strip() == old:
                yield 'arith', n.lineno, a, b, mid.replace(old, '-' if old == '+' else '+')
        elif isinstance(n, (ast.Expr, ast.Assign, ast.AugAssign, ast.Break, ast.Continue)):
            par = parents.get(n)
            if is_doc(n, par):
                continue
            a, b = src.seg(n)
            yield 'del', n.lineno, a, b, 'pass'
        elif isinstance(n, ast.Return) and n.value is not None and not (isinstance(n.value, ast.Constant) and n.value.value is None):
            a, b = src.seg(n)
            yield 'ret', n.lineno, a, b, 'return None'
        elif isinstance(n, (ast.If, ast.While)):
            a, b = src.seg(n.test)
            yield 'ifneg', n.lineno, a, b, 'not (' + src.get(a, b) + ')'


def make_copy():
    root = tempfile.mkdtemp(prefix='pyxtuml-amut-')
    for pkg in ('xtuml', 'bridgepoint', 'tests'):
        subprocess.check_call(['rsync', '-a', '--exclude', '__pycache__', '--exclude', '__*tab.py',
                               os.path.join(REPO, pkg) + '/', os.path.join(root, pkg) + '/'])
    for f in ('setup.py', 'setup.cfg', 'pytest.ini', 'tox.ini'):
        if os.path.exists(os.path.join(REPO, f)):
            shutil.copy(os.path.join(REPO, f), root)
    return root


SUITE = ("import sys; sys.meta_path[:]=[f for f in sys.meta_path if 'editable' not in "
         "(str(getattr(f,'__module__',''))+type(f).__name__+str(getattr(f,'__name__',''))).lower()]; "
         "sys.path.insert(0,'.'); import pytest; sys.exit(pytest.main(['-q','-x','-p','no:cacheprovider','tests']))")


def run_mutant(prop, fname, text, a, b, new):
    root = make_copy()
    try:
        src = Src(text)
        mutated = src.splice(a, b, new)
        try:
            compile(mutated, fname, 'exec')
        except SyntaxError:
            return 'invalid', ''
        open(os.path.join(root, fname), 'w').write(mutated)
        env = dict(os.environ, VERIF_REPO=root)
        try:
            p = subprocess.run([os.path.join(HERE, 'vcheck'), prop, '--tier', 'quick', '--no-evidence'], env=env,
                               capture_output=True, text=True, timeout=int(os.environ.get('AUTOMUTATE_CHECK_TIMEOUT', '420')))
        except subprocess.TimeoutExpired:
            return 'check-timeout', ''
        lines = [l for l in p.stdout.splitlines() if l.startswith('VIOLATION')]
        if p.returncode == 1 and lines:
            return 'caught', lines[0].split('key=')[-1][:100]
        if p.returncode == 2:
            return 'inconclusive', p.stdout.strip().splitlines()[-1][:200] if p.stdout.strip() else ''
        try:
            t = subprocess.run(['/venv/bin/python', '-c', SUITE], cwd=root, capture_output=True, text=True, timeout=900)
        except subprocess.TimeoutExpired:
            return 'suite-timeout', ''
        if t.returncode != 0:
            return 'suite-fails', (t.stdout.strip().splitlines() or [''])[-1][:120]
        return 'SURVIVED', ''
    finally:
        shutil.rmtree(root, ignore_errors=True)


def main(argv):
    n_per, seed, out = 8, 0, None
    args = argv[1:]
    while args and args[0].startswith('-'):
        if args[0] == '-n':
            n_per = int(args[1])
        elif args[0] == '-s':
            seed = int(args[1])
        elif args[0] == '-o':
            out = args[1]
        args = args[2:]
    props = [json.loads(l) for l in open(os.path.join(HERE, 'properties.jsonl'))]
    results = []
    for prop in props:
        pid = prop['id']
        if args and pid not in args:
            continue
        allsites = []
        for fname, rs in sorted(ranges_of(prop).items()):
            path = os.path.join(REPO, fname)
            if not os.path.exists(path):
                continue
            text = open(path).read()
            for s in sites(text, rs):
                allsites.append((fname, text) + s)
        rnd = random.Random('%s/%d' % (pid, seed))
        rnd.shuffle(allsites)
        print('== %s: %d sites, sampling %d' % (pid, len(allsites), min(n_per, len(allsites))), flush=True)
        for fname, text, kind, line, a, b, new in allsites[:n_per]:
            old = Src(text).get(a, b)
            verdict, info = run_mutant(pid, fname, text, a, b, new)
            srcline = text.split('\n')[line - 1].strip()
            print('%s %-13s %s:%d %-5s %r -> %r   | %s   %s' % (pid, verdict, fname, line, kind, old[:40], new[:40], srcline[:90], info),
                  flush=True)
            results.append(dict(property=pid, verdict=verdict, file=fname, line=line, kind=kind, old=old, new=new,
                                source_line=srcline, info=info))
            if out:
                json.dump(results, open(out, 'w'), indent=1)
    surv = [r for r in results if r['verdict'] == 'SURVIVED']
    print('\n%d mutants, %d caught, %d killed by the suite only, %d survived, %d other' % (
        len(results), sum(r['verdict'] == 'caught' for r in results), sum(r['verdict'] == 'suite-fails' for r in results),
        len(surv), sum(r['verdict'] not in ('caught', 'suite-fails', 'SURVIVED') for r in results)))
    return 0


if __name__ == '__main__':
    sys.exit(main(sys.argv))
