#!/usr/bin/env python3
'''print the DESIGN.md table rows (section 8.4) of the kept seeded changes named on the command line'''
import json, sys
for name in sys.argv[1:]:
    m = json.load(open('/verif/seeded/%s/meta.json' % name))
    caught = 'at once' if m.get('caught_at_first', m.get('caught')) and not m.get('caught_after') else 'after: ' + m['caught_after']
    print('| %s | `%s` | %s | %s |' % (m['property'], name, m['needs_to_manifest'], caught))
