#!/usr/bin/env python3
'''run one shard of one check in the foreground (debugging): tools/run_shard.py C08 thorough 1 16 64'''
import json, os, subprocess, sys, tempfile
sys.path.insert(0, '/verif')
from vf import build
cid, tier, seed, shard, nshards = sys.argv[1], sys.argv[2], int(sys.argv[3]), int(sys.argv[4]), int(sys.argv[5])
root = build.make_scratch()
out = tempfile.mktemp(prefix='shard-', suffix='.json')
try:
    args = dict(check=cid, tier=tier, seed=seed, shard=shard, nshards=nshards, root=root, out=out, params={})
    p = subprocess.run(['/venv/bin/python', '-m', 'vf.worker', json.dumps(args)], cwd='/verif',
                       env=dict(os.environ, PYTHONPATH='/verif', PYTHONHASHSEED='0'))
    print('rc', p.returncode)
    if os.path.exists(out):
        r = json.load(open(out))
        print(r.get('status'), str(r.get('error'))[:3000])
        for v in r.get('violations', [])[:5]:
            print(v['key'], v['what'][:1500])
finally:
    build.remove(root)
    if os.path.exists(out):
        os.remove(out)
