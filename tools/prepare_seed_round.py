#!/usr/bin/env python3
'''
Prepare one round of independently seeded changes:
  /tmp/seed/<round>-Cxx      scratch git worktree of /repo (HEAD) with run_tests.sh / run_py.sh
  /tmp/seedprompts/<round>-Cxx.txt   the complete brief for the sub-agent: only the property text, the
                             mechanisms earlier rounds already used (from seeded/*/meta.json), and the worktree

Usage: prepare_seed_round.py r4 [C01 C02 ...]
Nothing of /verif (checks, oracles, design) is shown to the sub-agent.
'''
import glob
import json
import os
import subprocess
import sys

rnd = sys.argv[1]
only = sys.argv[2:]
props = [json.loads(l) for l in open('/verif/properties.jsonl')]

RUN_TESTS = '''#!/bin/sh
# runs pytest against THIS worktree's sources (the venv also carries an editable install of another checkout)
cd "$(dirname "$0")"
rm -f xtuml/__xtuml_*tab.py bridgepoint/__oal_*tab.py
exec /venv/bin/python -c "import sys; sys.meta_path[:]=[f for f in sys.meta_path if 'editable' not in (str(getattr(f,'__module__',''))+type(f).__name__+str(getattr(f,'__name__',''))).lower()]; sys.path.insert(0,'.'); import pytest; sys.exit(pytest.main(sys.argv[1:]))" "$@"
'''
RUN_PY = '''#!/bin/sh
# runs a python script against THIS worktree's sources:  ./run_py.sh demo.py
cd "$(dirname "$0")"
rm -f xtuml/__xtuml_*tab.py bridgepoint/__oal_*tab.py
exec /venv/bin/python -c "import sys, runpy; sys.meta_path[:]=[f for f in sys.meta_path if 'editable' not in (str(getattr(f,'__module__',''))+type(f).__name__+str(getattr(f,'__name__',''))).lower()]; sys.path.insert(0,'.'); sys.argv=sys.argv[1:]; runpy.run_path(sys.argv[0], run_name='__main__')" "$@"
'''

TEMPLATE = '''You are helping to evaluate a verification harness for the open-source Python library pyxtuml (lwriemen/pyxtuml: parses BridgePoint xtUML models and OAL action language, builds metamodel instances, interprets OAL, persists/generates models).

Your working copy is the git worktree at {wt} (a checkout of the library at its current commit). Work ONLY inside that directory. Do not look at or touch /repo or /verif, and do not use the network.

THE PROPERTY (a semantic guarantee users of the library rely on):

id: {id}
title: {title}
statement: {statement}
quantified over: {quant}
code anchors: {anchors}

IMPORTANT: earlier changes already targeted these mechanisms:
{earlier}
Choose a DIFFERENT code site, a different clause of the property statement and a different triggering condition. Read the statement and its quantifier again and pick a part of it (or a code path serving it) that none of the above touches; stay INSIDE what the property and its quantifier cover (the change must make the stated guarantee false for inputs the quantifier names); prefer subtle state- or history-dependent mistakes, boundary conditions, and interactions between two features.

YOUR TASK: produce ONE realistic change to the library sources (xtuml/ or bridgepoint/ in the worktree - not the tests) that BREAKS this property, such that
 1. the library still imports/"compiles" and the existing test-suite still passes completely (244 tests): run it with  ./run_tests.sh -q -p no:cacheprovider tests  from the worktree root (this script makes sure the worktree's sources are used - the venv otherwise imports another checkout; always use ./run_tests.sh and ./run_py.sh <script.py>, never plain python/pytest);
 2. the breakage is NOT exposed by ordinary simple use: it must need something specific to manifest - a particular multi-step sequence of operations, an unusual (but legitimate) input, a particular combination of features, two cooperating code sites that each look fine alone, a specific ordering/history, a boundary value, etc. Think of the kind of regression a plausible refactoring, optimisation or "cleanup" could introduce (wrong variable in a rarely taken branch, lost edge-case handling, cache/aliasing, off-by-one at a boundary, swapped arguments that agree in the common case, dropped rollback, ...). Do not simply raise an exception or return garbage unconditionally.
 3. you write a demonstration: a small standalone script {wt}/demo.py (uses only the public behaviour of the library, prints what it observes, exits 0 when the property holds and exits 1 when it is violated) that FAILS (exit 1) with your change and PASSES (exit 0) on the unchanged sources. Verify both: run ./run_py.sh demo.py with your change applied, then `git stash` (or `git diff -- xtuml bridgepoint > {wt}/patch.diff && git checkout -- xtuml bridgepoint`), run it again on the clean sources, then re-apply your change.

Deliverables, all inside {wt}:
 - patch.diff   : `git diff -- xtuml bridgepoint` of your change to the library sources only (must apply with `git apply` to the clean checkout)
 - demo.py      : the demonstration described above
 - NOTES.md     : 5-15 lines: what the change is, why it breaks the property, exactly what is needed for it to manifest, and the commands you ran with their outcomes (test-suite result with the change; demo exit codes with and without the change)
Leave the worktree with your change APPLIED to the working tree (uncommitted). Do not commit.

In your final answer, summarise the change in 3-6 lines and confirm the three verification results (suite passes with change; demo fails with change; demo passes without change).
'''


def anchors_text(a):
    files = '; '.join(a.get('files', []))
    mech = '; '.join('%s (%s)' % (m['name'], m['where']) for m in a.get('mechanism', []))
    return '%s -- mechanisms: %s' % (files, mech)


os.makedirs('/tmp/seed', exist_ok=True)
os.makedirs('/tmp/seedprompts', exist_ok=True)
for p in props:
    pid = p['id']
    if only and pid not in only:
        continue
    wt = '/tmp/seed/%s-%s' % (rnd, pid)
    subprocess.run(['git', '-C', '/repo', 'worktree', 'remove', '--force', wt], capture_output=True)
    subprocess.check_call(['git', '-C', '/repo', 'worktree', 'add', '-q', '--detach', wt, 'HEAD'])
    for fn, body in (('run_tests.sh', RUN_TESTS), ('run_py.sh', RUN_PY)):
        with open(os.path.join(wt, fn), 'w') as f:
            f.write(body)
        os.chmod(os.path.join(wt, fn), 0o755)
    earlier = []
    for mf in sorted(glob.glob('/verif/seeded/%s-*/meta.json' % pid)):
        m = json.load(open(mf))
        name = os.path.basename(os.path.dirname(mf))[len(pid) + 1:].replace('-', ' ')
        earlier.append('   - %s (needs: %s)' % (name, m.get('needs_to_manifest', '')))
    text = TEMPLATE.format(wt=wt, id=pid, title=p['title'], statement=p['statement'],
                           quant=p['quantifier']['text'], anchors=anchors_text(p['anchors']),
                           earlier='\n'.join(earlier) or '   (none)')
    open('/tmp/seedprompts/%s-%s.txt' % (rnd, pid), 'w').write(text)
    print(pid, wt, len(earlier), 'earlier mechanisms')
