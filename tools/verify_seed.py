#!/usr/bin/env python3
'''
Independent confirmation of a seeded change produced in /tmp/seed/<dir>:
  1. patch applies to a clean checkout of /repo's HEAD
  2. the unedited test suite passes with it (244)
  3. the demo exits 1 with the change and 0 without it
  4. which of our checks report it (run through VERIF_REPO on the patched scratch worktree)
Usage: verify_seed.py <seed dir name> <property> [more properties to run]
'''
import json, os, shutil, subprocess, sys

name, props = sys.argv[1], sys.argv[2:]
src = '/tmp/seed/%s' % name
wt = '/tmp/seedverify-%s' % name
subprocess.run(['git', '-C', '/repo', 'worktree', 'remove', '--force', wt], capture_output=True)
subprocess.check_call(['git', '-C', '/repo', 'worktree', 'add', '-q', '--detach', wt, 'HEAD'])
res = dict(seed=name, property=props[0])
try:
    for f in ('run_tests.sh', 'run_py.sh', 'demo.py'):
        shutil.copy(os.path.join(src, f), wt)
    p = subprocess.run(['git', '-C', wt, 'apply', os.path.join(src, 'patch.diff')], capture_output=True, text=True)
    res['patch_applies'] = p.returncode == 0
    if p.returncode:
        print(p.stderr)
    t = subprocess.run(['./run_tests.sh', '-q', '-p', 'no:cacheprovider', 'tests'], cwd=wt, capture_output=True, text=True)
    res['suite_with_change'] = t.stdout.strip().splitlines()[-1] if t.stdout.strip() else t.stderr[-200:]
    d1 = subprocess.run(['./run_py.sh', 'demo.py'], cwd=wt, capture_output=True, text=True, timeout=600)
    res['demo_exit_with_change'] = d1.returncode
    checks = {}
    for prop in props:
        env = dict(os.environ, VERIF_REPO=wt)
        c = subprocess.run(['/verif/vcheck', prop, '--no-evidence'], env=env, capture_output=True, text=True)
        lines = [l[:260] for l in c.stdout.splitlines() if l.startswith('VIOLATION')]
        checks[prop] = dict(exit=c.returncode, violations=lines[:3], summary=c.stdout.strip().splitlines()[-1][:200])
    res['checks'] = checks
    subprocess.check_call(['git', '-C', wt, 'checkout', '--', 'xtuml', 'bridgepoint'])
    d0 = subprocess.run(['./run_py.sh', 'demo.py'], cwd=wt, capture_output=True, text=True, timeout=600)
    res['demo_exit_without_change'] = d0.returncode
finally:
    subprocess.run(['git', '-C', '/repo', 'worktree', 'remove', '--force', wt], capture_output=True)
print(json.dumps(res, indent=1))
json.dump(res, open('/tmp/seed/%s/verify.json' % name, 'w'), indent=1)
