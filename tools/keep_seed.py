#!/usr/bin/env python3
'''copy a confirmed seeded change from /tmp/seed/<dir> to /verif/seeded/<name>/ with meta.json'''
import json, os, shutil, sys
src_name, name = sys.argv[1], sys.argv[2]
src = '/tmp/seed/%s' % src_name
dst = '/verif/seeded/%s' % name
os.makedirs(dst, exist_ok=True)
for f in ('patch.diff', 'demo.py', 'NOTES.md'):
    shutil.copy(os.path.join(src, f), dst)
v = json.load(open(os.path.join(src, 'verify.json')))
notes = open(os.path.join(src, 'NOTES.md')).read()
meta = dict(
    property=v['property'],
    produced_by='independent sub-agent given only the property text and a scratch worktree',
    needs_to_manifest=sys.argv[3] if len(sys.argv) > 3 else '',
    confirmed=dict(patch_applies_to_clean_checkout=v['patch_applies'], suite_with_change=v['suite_with_change'],
                   demo_exit_with_change=v['demo_exit_with_change'],
                   demo_exit_without_change=v['demo_exit_without_change']),
    what_i_ran=['git worktree add <scratch> HEAD; git apply patch.diff',
                './run_tests.sh -q -p no:cacheprovider tests   (in the scratch worktree)',
                './run_py.sh demo.py   (with and without the change)',
                'VERIF_REPO=<scratch> ./vcheck <property> --no-evidence   (equivalent to git -C /repo apply; run; checkout)'],
    checks={k: dict(exit=c['exit'], first_violation=(c['violations'] or [''])[0]) for k, c in v['checks'].items()},
    caught=any(c['exit'] == 1 for c in v['checks'].values()),
)
json.dump(meta, open(os.path.join(dst, 'meta.json'), 'w'), indent=1)
print(name, 'caught' if meta['caught'] else 'MISSED')
